//! Native companion of the solver harnesses: runs the REAL crate (no hooks)
//! to dump its lookup tables and to compute known answers, line by line.
//!
//! Protocol (stdin, one command per line, whitespace separated; data as hex):
//!   dump <dir>
//!   prim <engine> <fft|ifft> <pos> <size> <trunc> <delta> <shard_len_64> <hex of all shards>
//!   mul <engine> <log_m> <hex of blocks>
//!   encode <rate> <engine> <k> <r> <shard_bytes> <hex of k originals concatenated>
//!   decode <rate> <engine> <k> <r> <shard_bytes> <n> (<o|r> <index> <hex>)*n
//!   supports <default|high|low> <original_count> <recovery_count>
//!   evalpoly <engine> <trunc> <n> (<index>)*n <m> (<query index>)*m
//! Output: one line per command: "ok <hex or values>" or "err <Debug of error>".
use reed_solomon_simd::engine::{self, tables, Engine, Naive, NoSimd, ShardsRefMut, GF_ORDER};
use reed_solomon_simd::engine::{Avx2, Ssse3, DefaultEngine};
use reed_solomon_simd::rate::{
    DefaultRateDecoder, DefaultRateEncoder, HighRateDecoder, HighRateEncoder, LowRateDecoder,
    LowRateEncoder, RateDecoder, RateEncoder,
};
use std::io::{BufRead, Write};

fn unhex(s: &str) -> Vec<u8> {
    if s == "-" {
        return Vec::new();
    }
    (0..s.len() / 2)
        .map(|i| u8::from_str_radix(&s[2 * i..2 * i + 2], 16).unwrap())
        .collect()
}
fn hex(b: &[u8]) -> String {
    if b.is_empty() {
        return "-".into();
    }
    b.iter().map(|x| format!("{x:02x}")).collect()
}

fn dump(dir: &str) {
    std::fs::create_dir_all(dir).unwrap();
    let w16 = |name: &str, d: &[u16]| {
        let mut v = Vec::with_capacity(d.len() * 2);
        for x in d {
            v.extend_from_slice(&x.to_le_bytes());
        }
        std::fs::write(format!("{dir}/{name}.bin"), v).unwrap();
    };
    w16("exp", &tables::EXP_LOG.exp[..]);
    w16("log", &tables::EXP_LOG.log[..]);
    w16("skew", &tables::SKEW[..]);
    w16("log_walsh", &tables::LOG_WALSH[..]);
    // mul16: [log_m][t][i] u16 -> 65536*4*16*2 bytes
    let mut v = Vec::with_capacity(GF_ORDER * 128);
    for row in tables::MUL16.iter() {
        for t in row {
            for x in t {
                v.extend_from_slice(&x.to_le_bytes());
            }
        }
    }
    std::fs::write(format!("{dir}/mul16.bin"), v).unwrap();
    // mul128: [log_m] lo[4] (16 bytes each) then hi[4]
    let mut v = Vec::with_capacity(GF_ORDER * 128);
    for row in tables::MUL128.iter() {
        for x in row.lo {
            v.extend_from_slice(&x.to_le_bytes());
        }
        for x in row.hi {
            v.extend_from_slice(&x.to_le_bytes());
        }
    }
    std::fs::write(format!("{dir}/mul128.bin"), v).unwrap();
}

fn to_blocks(b: &[u8]) -> Vec<[u8; 64]> {
    assert!(b.len() % 64 == 0);
    b.chunks(64).map(|c| c.try_into().unwrap()).collect()
}

fn with_engine<R>(name: &str, f: impl FnOnce(&dyn Engine) -> R) -> R {
    match name {
        "naive" => f(&Naive::new()),
        "nosimd" => f(&NoSimd::new()),
        "ssse3" => f(&Ssse3::new()),
        "avx2" => f(&Avx2::new()),
        "default" => f(&DefaultEngine::new()),
        _ => panic!("engine {name}"),
    }
}

fn run_enc<T: RateEncoder<X>, X: Engine>(e: X, k: usize, r: usize, sb: usize, data: &[u8]) -> String {
    let mut enc = match T::new(k, r, sb, e, None) {
        Ok(x) => x,
        Err(e) => return format!("err {e:?}"),
    };
    for i in 0..k {
        if let Err(e) = enc.add_original_shard(&data[i * sb..(i + 1) * sb]) {
            return format!("err {e:?}");
        }
    }
    let res = match enc.encode() {
        Ok(x) => x,
        Err(e) => return format!("err {e:?}"),
    };
    let mut out = Vec::new();
    for s in res.recovery_iter() {
        out.extend_from_slice(s);
    }
    format!("ok {}", hex(&out))
}

fn run_dec<T: RateDecoder<X>, X: Engine>(
    e: X,
    k: usize,
    r: usize,
    sb: usize,
    shards: &[(bool, usize, Vec<u8>)],
) -> String {
    let mut dec = match T::new(k, r, sb, e, None) {
        Ok(x) => x,
        Err(e) => return format!("err {e:?}"),
    };
    for (is_orig, idx, d) in shards {
        let res = if *is_orig {
            dec.add_original_shard(*idx, d)
        } else {
            dec.add_recovery_shard(*idx, d)
        };
        if let Err(e) = res {
            return format!("err {e:?}");
        }
    }
    let res = match dec.decode() {
        Ok(x) => x,
        Err(e) => return format!("err {e:?}"),
    };
    let mut s = String::from("ok");
    for (i, d) in res.restored_original_iter() {
        s += &format!(" {i}:{}", hex(d));
    }
    s
}

macro_rules! by_engine {
    ($name:expr, $e:ident => $body:expr) => {
        match $name {
            "naive" => { let $e = Naive::new(); $body }
            "nosimd" => { let $e = NoSimd::new(); $body }
            "ssse3" => { let $e = Ssse3::new(); $body }
            "avx2" => { let $e = Avx2::new(); $body }
            "default" => { let $e = DefaultEngine::new(); $body }
            other => panic!("engine {other}"),
        }
    };
}

fn main() {
    let stdin = std::io::stdin();
    let stdout = std::io::stdout();
    let mut out = stdout.lock();
    for line in stdin.lock().lines() {
        let line = line.unwrap();
        let t: Vec<&str> = line.split_whitespace().collect();
        if t.is_empty() {
            continue;
        }
        let n = |i: usize| -> usize { t[i].parse().unwrap() };
        let resp = match t[0] {
            "dump" => {
                dump(t[1]);
                "ok".to_string()
            }
            "prim" => {
                let (pos, size, trunc, delta, len64) = (n(3), n(4), n(5), n(6), n(7));
                let mut blocks = to_blocks(&unhex(t[8]));
                let count = blocks.len() / len64;
                with_engine(t[1], |e| {
                    let mut r = ShardsRefMut::new(count, len64, &mut blocks);
                    if t[2] == "fft" {
                        e.fft(&mut r, pos, size, trunc, delta);
                    } else {
                        e.ifft(&mut r, pos, size, trunc, delta);
                    }
                });
                format!("ok {}", hex(blocks.as_flattened()))
            }
            "mul" => {
                let mut blocks = to_blocks(&unhex(t[3]));
                with_engine(t[1], |e| e.mul(&mut blocks, n(2) as u16));
                format!("ok {}", hex(blocks.as_flattened()))
            }
            "encode" => {
                let (k, r, sb) = (n(3), n(4), n(5));
                let data = unhex(t[6]);
                by_engine!(t[2], e => match t[1] {
                    "high" => run_enc::<HighRateEncoder<_>, _>(e, k, r, sb, &data),
                    "low" => run_enc::<LowRateEncoder<_>, _>(e, k, r, sb, &data),
                    _ => run_enc::<DefaultRateEncoder<_>, _>(e, k, r, sb, &data),
                })
            }
            "decode" => {
                let (k, r, sb, cnt) = (n(3), n(4), n(5), n(6));
                let mut shards = Vec::new();
                for i in 0..cnt {
                    shards.push((t[7 + 3 * i] == "o", n(8 + 3 * i), unhex(t[9 + 3 * i])));
                }
                by_engine!(t[2], e => match t[1] {
                    "high" => run_dec::<HighRateDecoder<_>, _>(e, k, r, sb, &shards),
                    "low" => run_dec::<LowRateDecoder<_>, _>(e, k, r, sb, &shards),
                    _ => run_dec::<DefaultRateDecoder<_>, _>(e, k, r, sb, &shards),
                })
            }
            "supports" => {
                use reed_solomon_simd::rate::{DefaultRate, HighRate, LowRate, Rate};
                let (o, r) = (n(2), n(3));
                let b = match t[1] {
                    "high" => HighRate::<NoSimd>::supports(o, r),
                    "low" => LowRate::<NoSimd>::supports(o, r),
                    _ => DefaultRate::<NoSimd>::supports(o, r),
                };
                format!("ok {b}")
            }
            "evalpoly" => {
                let trunc = n(2);
                let cnt = n(3);
                let mut er = Box::new([0u16; GF_ORDER]);
                let mut p = 4;
                for _ in 0..cnt {
                    // index or range a-b
                    if let Some((a, b)) = t[p].split_once('-') {
                        let (a, b): (usize, usize) = (a.parse().unwrap(), b.parse().unwrap());
                        er[a..b].fill(1);
                    } else {
                        er[n(p)] = 1;
                    }
                    p += 1;
                }
                match t[1] {
                    "naive" => Naive::eval_poly(&mut er, trunc),
                    "nosimd" => NoSimd::eval_poly(&mut er, trunc),
                    "ssse3" => Ssse3::eval_poly(&mut er, trunc),
                    "avx2" => Avx2::eval_poly(&mut er, trunc),
                    _ => DefaultEngine::eval_poly(&mut er, trunc),
                }
                let m = n(p);
                let mut s = String::from("ok");
                for i in 0..m {
                    s += &format!(" {}", er[n(p + 1 + i)]);
                }
                s
            }
            _ => "err unknown command".to_string(),
        };
        writeln!(out, "{resp}").unwrap();
        out.flush().unwrap();
    }
    let _ = engine::GF_BITS;
}
