#!/bin/sh
# Offline setup after a fresh restore: build the native companion and warm one
# Kani target directory. Everything else is rebuilt by the checks themselves.
set -e
cd "$(dirname "$0")"
export CARGO_NET_OFFLINE=true
mkdir -p build evidence replays
(cd native && cargo build --offline --target-dir ../build/native-target) >build/setup-native.log 2>&1 || { tail -50 build/setup-native.log; exit 1; }
python3 lib/selftest.py
echo "setup ok"
