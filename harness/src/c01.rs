//! C01 rate-layer half: the REAL decoders over the engine contract restore
//! every missing original from any sufficient subset. The given recovery
//! shards are produced from the closed-form generator G (C02), so this
//! harness is decode-only.
use crate::c02::sym_of;
use crate::codec::*;
use crate::model::*;
use crate::{k, kcover};
use reed_solomon_simd::rate::*;

/// all originals symbolic; given: originals in `om`, recovery in `rm`
pub fn dec_full<D: Dec, const K: usize, const R: usize>(om: u32, rm: u32, g: &'static [[u16; 16]]) {
    set_lanes(1);
    let mut x = [0u16; K];
    let mut i = 0;
    while i < K {
        x[i] = k::any();
        i += 1;
    }
    let mut d = D::mk(K, R, 2).unwrap();
    let mut i = 0;
    while i < K {
        if om >> i & 1 == 1 {
            d.add_o(i, &x[i].to_le_bytes()).unwrap();
        }
        i += 1;
    }
    let mut j = 0;
    while j < R {
        if rm >> j & 1 == 1 {
            let mut rec = 0u16;
            let mut i = 0;
            while i < K {
                rec ^= lin(&g[j * K + i], x[i]);
                i += 1;
            }
            d.add_r(j, &rec.to_le_bytes()).unwrap();
        }
        j += 1;
    }
    let out = d.dec();
    let res = out.unwrap();
    let mut i = 0;
    while i < K {
        match res.restored_original(i) {
            Some(s) => {
                assert!(om >> i & 1 == 0, "a given original is reported as restored");
                assert!(s.len() == 2);
                assert!(sym_of(s) == x[i], "restored original differs from the original data");
            }
            None => assert!(om >> i & 1 == 1, "a missing original is not restored"),
        }
        i += 1;
    }
    kcover!(x[0] == 0xffff);
}

/// basis form: only original `p` is non-zero
pub fn dec_basis<D: Dec, const K: usize, const R: usize>(om: u32, rm: u32, p: usize, g: &'static [[u16; 16]]) {
    set_lanes(1);
    let xv: u16 = k::any();
    let mut d = D::mk(K, R, 2).unwrap();
    let mut i = 0;
    while i < K {
        if om >> i & 1 == 1 {
            let s = if i == p { xv } else { 0 };
            d.add_o(i, &s.to_le_bytes()).unwrap();
        }
        i += 1;
    }
    let mut j = 0;
    while j < R {
        if rm >> j & 1 == 1 {
            d.add_r(j, &lin(&g[j * K + p], xv).to_le_bytes()).unwrap();
        }
        j += 1;
    }
    let out = d.dec();
    let res = out.unwrap();
    let mut i = 0;
    while i < K {
        match res.restored_original(i) {
            Some(s) => {
                assert!(om >> i & 1 == 0);
                assert!(s.len() == 2);
                assert!(sym_of(s) == if i == p { xv } else { 0 }, "restored original differs from the original data");
            }
            None => assert!(om >> i & 1 == 1),
        }
        i += 1;
    }
    kcover!(xv == 0xffff);
}

fn dec_syms<D: Dec, const K: usize, const R: usize>(om: u32, rm: u32, x: &[u16; K], g: &'static [[u16; 16]]) -> [u16; K] {
    let mut d = D::mk(K, R, 2).unwrap();
    let mut i = 0;
    while i < K {
        if om >> i & 1 == 1 {
            d.add_o(i, &x[i].to_le_bytes()).unwrap();
        }
        i += 1;
    }
    let mut j = 0;
    while j < R {
        if rm >> j & 1 == 1 {
            let mut rec = 0u16;
            let mut i = 0;
            while i < K {
                rec ^= lin(&g[j * K + i], x[i]);
                i += 1;
            }
            d.add_r(j, &rec.to_le_bytes()).unwrap();
        }
        j += 1;
    }
    let out = d.dec();
    let res = out.unwrap();
    let mut y = [0u16; K];
    let mut i = 0;
    while i < K {
        if let Some(s) = res.restored_original(i) {
            y[i] = sym_of(s);
        }
        i += 1;
    }
    y
}

/// additivity of decode for a fixed pattern: restore(a) ^ restore(b) == restore(a ^ b)
/// for two fully symbolic data sets (closes the step from the basis form to all data, and
/// exposes data-dependent shortcuts in the rate layer's decode path)
pub fn dec_additive<D: Dec, const K: usize, const R: usize>(om: u32, rm: u32, g: &'static [[u16; 16]]) {
    set_lanes(1);
    let mut a = [0u16; K];
    let mut b = [0u16; K];
    let mut c = [0u16; K];
    let mut i = 0;
    while i < K {
        a[i] = k::any();
        b[i] = k::any();
        c[i] = a[i] ^ b[i];
        i += 1;
    }
    let ya = dec_syms::<D, K, R>(om, rm, &a, g);
    let yb = dec_syms::<D, K, R>(om, rm, &b, g);
    let yc = dec_syms::<D, K, R>(om, rm, &c, g);
    let mut i = 0;
    while i < K {
        assert!(ya[i] ^ yb[i] == yc[i], "decoding is not additive");
        i += 1;
    }
}

/// known answer: concrete data, expected restored symbols = the originals
/// (the recovery symbols come from the REAL encoder, natively)
pub fn dec_kat<D: Dec, const K: usize, const R: usize>(om: u32, rm: u32, orig: &[u16], rec: &[u16]) {
    set_lanes(1);
    let mut d = D::mk(K, R, 2).unwrap();
    let mut i = 0;
    while i < K {
        if om >> i & 1 == 1 {
            d.add_o(i, &orig[i].to_le_bytes()).unwrap();
        }
        i += 1;
    }
    let mut j = 0;
    while j < R {
        if rm >> j & 1 == 1 {
            d.add_r(j, &rec[j].to_le_bytes()).unwrap();
        }
        j += 1;
    }
    let out = d.dec();
    let res = out.unwrap();
    let mut i = 0;
    while i < K {
        if om >> i & 1 == 0 {
            assert!(sym_of(res.restored_original(i).unwrap()) == orig[i], "known answer mismatch");
        }
        i += 1;
    }
}
