//! Emulation of the seven AArch64 Neon intrinsics used by
//! `src/engine/engine_neon.rs`, following the Arm pseudo-code, so that the Neon
//! engine's SOURCE (ported textually at generation time, see lib/gen.py) can be
//! compiled and model-checked on this x86-64 host.
#![allow(non_camel_case_types, clippy::missing_safety_doc)]

#[derive(Clone, Copy, PartialEq, Eq, Debug)]
pub struct uint8x16_t(pub [u8; 16]);

/// LD1 {Vt.16B}, [Xn]
pub unsafe fn vld1q_u8(ptr: *const u8) -> uint8x16_t {
    let mut r = [0u8; 16];
    let mut i = 0;
    while i < 16 {
        r[i] = *ptr.add(i);
        i += 1;
    }
    uint8x16_t(r)
}

/// ST1 {Vt.16B}, [Xn]
pub unsafe fn vst1q_u8(ptr: *mut u8, a: uint8x16_t) {
    let mut i = 0;
    while i < 16 {
        *ptr.add(i) = a.0[i];
        i += 1;
    }
}

/// EOR Vd.16B, Vn.16B, Vm.16B
pub unsafe fn veorq_u8(a: uint8x16_t, b: uint8x16_t) -> uint8x16_t {
    let mut r = [0u8; 16];
    let mut i = 0;
    while i < 16 {
        r[i] = a.0[i] ^ b.0[i];
        i += 1;
    }
    uint8x16_t(r)
}

/// AND Vd.16B, Vn.16B, Vm.16B
pub unsafe fn vandq_u8(a: uint8x16_t, b: uint8x16_t) -> uint8x16_t {
    let mut r = [0u8; 16];
    let mut i = 0;
    while i < 16 {
        r[i] = a.0[i] & b.0[i];
        i += 1;
    }
    uint8x16_t(r)
}

/// DUP Vd.16B, rn
pub unsafe fn vdupq_n_u8(x: u8) -> uint8x16_t {
    uint8x16_t([x; 16])
}

/// USHR Vd.16B, Vn.16B, #n  (1 <= n <= 8; n = 8 gives zero)
pub unsafe fn vshrq_n_u8(a: uint8x16_t, n: i32) -> uint8x16_t {
    assert!(n >= 1 && n <= 8);
    let mut r = [0u8; 16];
    let mut i = 0;
    while i < 16 {
        r[i] = if n == 8 { 0 } else { a.0[i] >> n };
        i += 1;
    }
    uint8x16_t(r)
}

/// TBL Vd.16B, {Vn.16B}, Vm.16B: out-of-range indexes (>= 16) give zero
pub unsafe fn vqtbl1q_u8(t: uint8x16_t, idx: uint8x16_t) -> uint8x16_t {
    let mut r = [0u8; 16];
    let mut i = 0;
    while i < 16 {
        r[i] = if idx.0[i] < 16 { t.0[idx.0[i] as usize] } else { 0 };
        i += 1;
    }
    uint8x16_t(r)
}
