//! C07 — a failed call changes nothing and leaves the object usable.
//! The whole internal state (hook view: configuration, counters, bitmap,
//! every byte of working memory, pointers and capacities, inner rate of the
//! default codec) is snapshotted before the failing call and compared after
//! it; dedicated codecs then finish the round (no panic, Ok).
use crate::c06::class_args;
use crate::codec::*;
use crate::model::NullEngine;
use crate::{k, kcover};
use reed_solomon_simd::rate::*;
use reed_solomon_simd::Error;

const SB: usize = 2;

/// failing call kinds for a decoder
/// 0: add_original index >= k (symbolic, unbounded)   1: add_recovery index >= r
/// 2: duplicate original (index 0, given in prefix)   3: duplicate recovery (index 0)
/// 4: add_original wrong length `arg`                 5: add_recovery wrong length `arg`
/// 6: decode with too few shards                      7: reset with invalid class `arg`
pub fn dec_failed_call<D: Dec + DecState>(kk: usize, r: usize, kind: u32, arg: usize, finish: bool) {
    // blocks of working memory of this configuration (2-byte shards: one block per position)
    let chunk = if crate::c09::rule(kk, r) { r.next_power_of_two() + kk } else { kk.next_power_of_two() + r };
    set_snap_blocks(chunk.next_power_of_two());
    let mut d = D::mk(kk, r, SB).unwrap();
    let buf: [u8; 6] = k::any();
    // prefix: original 0 and recovery 0 are given (except for kind 6: only original 0, with k >= 2)
    let s0: [u8; 2] = k::any();
    d.add_o(0, &s0).unwrap();
    if kind != 6 {
        let s1: [u8; 2] = k::any();
        d.add_r(0, &s1).unwrap();
    }
    let before = d.snap();
    let res: Result<(), Error> = match kind {
        0 => {
            let i: usize = k::any();
            k::assume(i >= kk);
            d.add_o(i, &buf[..SB])
        }
        1 => {
            let i: usize = k::any();
            k::assume(i >= r);
            d.add_r(i, &buf[..SB])
        }
        2 => d.add_o(0, &buf[..SB]),
        3 => d.add_r(0, &buf[..SB]),
        4 => d.add_o(1, &buf[..arg]),
        5 => d.add_r(if r > 1 { 1 } else { 0 }, &buf[..arg]),
        6 => d.dec().map(|_| ()),
        _ => {
            let (o, rr, s) = class_args(arg as u32, if D::SIDE == 2 { 1 } else { 2 }, if D::SIDE == 2 { 2 } else { 1 });
            d.rst(o, rr, s)
        }
    };
    assert!(res.is_err(), "the call was expected to fail");
    let after = d.snap();
    assert!(after.present, "the failed call left the codec without its inner state");
    assert!(before.same(&after, true), "a failed call changed the state of the decoder");
    if finish {
        // the object is still usable: complete the round
        let mut i = 1;
        while i < kk {
            let s: [u8; 2] = k::any();
            d.add_o(i, &s).unwrap();
            i += 1;
        }
        let out = d.dec();
        assert!(out.is_ok());
    }
}

/// failing call kinds for an encoder
/// 0: add wrong length `arg` (one shard already added)   1: surplus add after k adds
/// 2: encode with too few (one shard added, k >= 2)       3: reset with invalid class `arg`
pub fn enc_failed_call<E: Enc + EncState>(kk: usize, r: usize, kind: u32, arg: usize, finish: bool) {
    let wc = if crate::c09::rule(kk, r) { kk.next_multiple_of(r.next_power_of_two()) } else { r.next_multiple_of(kk.next_power_of_two()) };
    set_snap_blocks(wc);
    let mut e = E::mk(kk, r, SB).unwrap();
    let buf: [u8; 6] = k::any();
    let s0: [u8; 2] = k::any();
    e.add(&s0).unwrap();
    let mut n = 1;
    if kind == 1 {
        while n < kk {
            let s: [u8; 2] = k::any();
            e.add(&s).unwrap();
            n += 1;
        }
    }
    let before = e.snap();
    let res: Result<(), Error> = match kind {
        0 => e.add(&buf[..arg]),
        1 => e.add(&buf[..SB]),
        2 => e.enc().map(|_| ()),
        _ => {
            let (o, rr, s) = class_args(arg as u32, if E::SIDE == 2 { 1 } else { 2 }, if E::SIDE == 2 { 2 } else { 1 });
            e.rst(o, rr, s)
        }
    };
    assert!(res.is_err(), "the call was expected to fail");
    let after = e.snap();
    assert!(after.present, "the failed call left the codec without its inner state");
    assert!(before.same(&after, true), "a failed call changed the state of the encoder");
    if finish {
        while n < kk {
            let s: [u8; 2] = k::any();
            e.add(&s).unwrap();
            n += 1;
        }
        let out = e.enc();
        assert!(out.is_ok());
    }
}
