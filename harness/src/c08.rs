//! C08 — supports() is exactly the documented envelope; validate/new/reset agree.
use crate::model::NullEngine;
use reed_solomon_simd::engine::{DefaultEngine, NoSimd};
use reed_solomon_simd::rate::*;
use reed_solomon_simd::{Error, ReedSolomonDecoder, ReedSolomonEncoder};

/// README table, written independently of the code: both counts >= 1 and for
/// some n in 0..=16 one count <= 2^n while the other <= 65536 - 2^n.
/// `side`: 0 = either side may be the power-of-two-bounded one (default rate),
/// 1 = recovery_count is (high rate), 2 = original_count is (low rate).
pub fn envelope(o: usize, r: usize, side: u8) -> bool {
    if o < 1 || r < 1 {
        return false;
    }
    let mut ok = false;
    let mut n = 0u32;
    while n <= 16 {
        let p = 1usize << n;
        let q = 65536usize - p;
        if side != 2 && r <= p && o <= q {
            ok = true;
        }
        if side != 1 && o <= p && r <= q {
            ok = true;
        }
        n += 1;
    }
    ok
}

#[kani::proof]
#[kani::unwind(18)]
fn supports_default() {
    let (o, r): (usize, usize) = (kani::any(), kani::any());
    let spec = envelope(o, r, 0);
    assert_eq!(DefaultRate::<NoSimd>::supports(o, r), spec);
    assert_eq!(DefaultRate::<NullEngine>::supports(o, r), spec);
    assert_eq!(DefaultRateEncoder::<NoSimd>::supports(o, r), spec);
    assert_eq!(DefaultRateDecoder::<NoSimd>::supports(o, r), spec);
    assert_eq!(ReedSolomonEncoder::supports(o, r), spec);
    assert_eq!(ReedSolomonDecoder::supports(o, r), spec);
    kani::cover!(spec && o > 32768);
    kani::cover!(spec && r > 32768);
    kani::cover!(!spec && o >= 1 && r >= 1 && o < 65536 && r < 65536);
    kani::cover!(o == usize::MAX);
}

#[kani::proof]
#[kani::unwind(18)]
fn supports_high() {
    let (o, r): (usize, usize) = (kani::any(), kani::any());
    let spec = envelope(o, r, 1);
    assert_eq!(HighRate::<NoSimd>::supports(o, r), spec);
    assert_eq!(HighRateEncoder::<NoSimd>::supports(o, r), spec);
    assert_eq!(HighRateDecoder::<NoSimd>::supports(o, r), spec);
    kani::cover!(spec && o > 32768);
    kani::cover!(spec && r == 32768);
    kani::cover!(!spec && o >= 1 && r >= 1 && o < 65536 && r < 65536);
    kani::cover!(o == usize::MAX);
}

#[kani::proof]
#[kani::unwind(18)]
fn supports_low() {
    let (o, r): (usize, usize) = (kani::any(), kani::any());
    let spec = envelope(o, r, 2);
    assert_eq!(LowRate::<NoSimd>::supports(o, r), spec);
    assert_eq!(LowRateEncoder::<NoSimd>::supports(o, r), spec);
    assert_eq!(LowRateDecoder::<NoSimd>::supports(o, r), spec);
    kani::cover!(spec && r > 32768);
    kani::cover!(spec && o == 32768);
    kani::cover!(!spec && o >= 1 && r >= 1 && o < 65536 && r < 65536);
    kani::cover!(o == usize::MAX);
}

/// default envelope = union of the dedicated ones, and the rate rule always
/// names a dedicated codec that supports the pair.
#[kani::proof]
#[kani::unwind(18)]
fn supports_default_is_union_and_rule_is_supported() {
    let (o, r): (usize, usize) = (kani::any(), kani::any());
    let d = DefaultRate::<NoSimd>::supports(o, r);
    let h = HighRate::<NoSimd>::supports(o, r);
    let l = LowRate::<NoSimd>::supports(o, r);
    assert_eq!(d, h || l);
    match reed_solomon_simd::verif_hooks::use_high_rate(o, r) {
        Ok(true) => assert!(h),
        Ok(false) => assert!(l),
        Err(e) => {
            assert!(!d);
            assert_eq!(e, Error::UnsupportedShardCount { original_count: o, recovery_count: r });
        }
    }
    kani::cover!(h && !l);
    kani::cover!(l && !h);
    kani::cover!(h && l);
}

fn validate_spec(o: usize, r: usize, s: usize, side: u8) -> Result<(), Error> {
    if !envelope(o, r, side) {
        Err(Error::UnsupportedShardCount { original_count: o, recovery_count: r })
    } else if s == 0 || s % 2 == 1 {
        Err(Error::InvalidShardSize { shard_bytes: s })
    } else {
        Ok(())
    }
}

#[kani::proof]
#[kani::unwind(18)]
fn validate_all() {
    let (o, r, s): (usize, usize, usize) = (kani::any(), kani::any(), kani::any());
    let d = validate_spec(o, r, s, 0);
    assert_eq!(DefaultRate::<NoSimd>::validate(o, r, s), d);
    assert_eq!(DefaultRateEncoder::<NoSimd>::validate(o, r, s), d);
    assert_eq!(DefaultRateDecoder::<NoSimd>::validate(o, r, s), d);
    let h = validate_spec(o, r, s, 1);
    assert_eq!(HighRate::<NoSimd>::validate(o, r, s), h);
    assert_eq!(HighRateEncoder::<NoSimd>::validate(o, r, s), h);
    assert_eq!(HighRateDecoder::<NoSimd>::validate(o, r, s), h);
    let l = validate_spec(o, r, s, 2);
    assert_eq!(LowRate::<NoSimd>::validate(o, r, s), l);
    assert_eq!(LowRateEncoder::<NoSimd>::validate(o, r, s), l);
    assert_eq!(LowRateDecoder::<NoSimd>::validate(o, r, s), l);
    kani::cover!(d.is_ok() && s > 1 << 40);
    kani::cover!(matches!(d, Err(Error::InvalidShardSize { .. })));
    kani::cover!(matches!(h, Err(Error::UnsupportedShardCount { .. })) && l.is_ok());
}

/// work-space arithmetic for EVERY supported pair (full 64-bit width):
/// what `new` allocates is enough for every position encode/decode touch and
/// every skew-table index stays in range.
#[kani::proof]
#[kani::unwind(18)]
fn work_arith_high() {
    let (o, r): (usize, usize) = (kani::any(), kani::any());
    kani::assume(HighRate::<NullEngine>::supports(o, r));
    let chunk = r.next_power_of_two();
    let ew = HighRateEncoder::<NullEngine>::verif_work_count(o, r);
    let dw = HighRateDecoder::<NullEngine>::verif_work_count(o, r);
    // encoder: originals fit, every chunk [c, c+chunk) fits, recovery fits,
    // ifft_skew_end(c, chunk) uses skew indexes < c + 2*chunk - 1 <= 65535
    assert!(ew >= o && ew >= chunk && r <= chunk);
    assert!(ew % chunk == 0 && ew < o + chunk);
    assert!(ew + chunk <= 65536);
    // decoder: recovery at 0.., originals at chunk.., fft over the whole work
    assert!(dw.is_power_of_two() && dw <= 65536);
    assert!(chunk + o <= dw && r <= chunk);
    kani::cover!(ew + chunk == 65536);
    kani::cover!(dw == 65536 && o == 61440);
}

#[kani::proof]
#[kani::unwind(18)]
fn work_arith_low() {
    let (o, r): (usize, usize) = (kani::any(), kani::any());
    kani::assume(LowRate::<NullEngine>::supports(o, r));
    let chunk = o.next_power_of_two();
    let ew = LowRateEncoder::<NullEngine>::verif_work_count(o, r);
    let dw = LowRateDecoder::<NullEngine>::verif_work_count(o, r);
    // encoder: originals in chunk 0, copies of it up to r, fft_skew_end(c, chunk)
    // uses skew indexes < c + 2*chunk - 1 <= 65535
    assert!(ew >= chunk && o <= chunk && ew >= r);
    assert!(ew % chunk == 0 && ew < r + chunk);
    assert!(ew + chunk <= 65536);
    assert!(dw.is_power_of_two() && dw <= 65536);
    assert!(chunk + r <= dw);
    kani::cover!(ew + chunk == 65536);
    kani::cover!(dw == 65536 && r == 61440);
}
