//! C08 — supports() is exactly the documented envelope; validate/new/reset agree.
use crate::k;
use crate::kcover;
use crate::codec::{envelope, validate_spec};
use crate::model::NullEngine;
use reed_solomon_simd::engine::{DefaultEngine, NoSimd};
use reed_solomon_simd::rate::*;
use reed_solomon_simd::{Error, ReedSolomonDecoder, ReedSolomonEncoder};

#[cfg_attr(kani, kani::proof)]
#[cfg_attr(kani, kani::unwind(18))]
pub fn supports_default() {
    let (o, r): (usize, usize) = (k::any(), k::any());
    let spec = envelope(o, r, 0);
    assert_eq!(DefaultRate::<NoSimd>::supports(o, r), spec);
    assert_eq!(DefaultRate::<NullEngine>::supports(o, r), spec);
    assert_eq!(DefaultRateEncoder::<NoSimd>::supports(o, r), spec);
    assert_eq!(DefaultRateDecoder::<NoSimd>::supports(o, r), spec);
    assert_eq!(ReedSolomonEncoder::supports(o, r), spec);
    assert_eq!(ReedSolomonDecoder::supports(o, r), spec);
    kcover!(spec && o > 32768);
    kcover!(spec && r > 32768);
    kcover!(!spec && o >= 1 && r >= 1 && o < 65536 && r < 65536);
    kcover!(o == usize::MAX);
}

#[cfg_attr(kani, kani::proof)]
#[cfg_attr(kani, kani::unwind(18))]
pub fn supports_high() {
    let (o, r): (usize, usize) = (k::any(), k::any());
    let spec = envelope(o, r, 1);
    assert_eq!(HighRate::<NoSimd>::supports(o, r), spec);
    assert_eq!(HighRateEncoder::<NoSimd>::supports(o, r), spec);
    assert_eq!(HighRateDecoder::<NoSimd>::supports(o, r), spec);
    kcover!(spec && o > 32768);
    kcover!(spec && r == 32768);
    kcover!(!spec && o >= 1 && r >= 1 && o < 65536 && r < 65536);
    kcover!(o == usize::MAX);
}

#[cfg_attr(kani, kani::proof)]
#[cfg_attr(kani, kani::unwind(18))]
pub fn supports_low() {
    let (o, r): (usize, usize) = (k::any(), k::any());
    let spec = envelope(o, r, 2);
    assert_eq!(LowRate::<NoSimd>::supports(o, r), spec);
    assert_eq!(LowRateEncoder::<NoSimd>::supports(o, r), spec);
    assert_eq!(LowRateDecoder::<NoSimd>::supports(o, r), spec);
    kcover!(spec && r > 32768);
    kcover!(spec && o == 32768);
    kcover!(!spec && o >= 1 && r >= 1 && o < 65536 && r < 65536);
    kcover!(o == usize::MAX);
}

/// default envelope = union of the dedicated ones, and the rate rule always
/// names a dedicated codec that supports the pair.
#[cfg_attr(kani, kani::proof)]
#[cfg_attr(kani, kani::unwind(18))]
pub fn supports_default_is_union_and_rule_is_supported() {
    let (o, r): (usize, usize) = (k::any(), k::any());
    let d = DefaultRate::<NoSimd>::supports(o, r);
    let h = HighRate::<NoSimd>::supports(o, r);
    let l = LowRate::<NoSimd>::supports(o, r);
    assert_eq!(d, h || l);
    match reed_solomon_simd::verif_hooks::use_high_rate(o, r) {
        Ok(true) => assert!(h),
        Ok(false) => assert!(l),
        Err(e) => {
            assert!(!d);
            assert_eq!(e, Error::UnsupportedShardCount { original_count: o, recovery_count: r });
        }
    }
    kcover!(h && !l);
    kcover!(l && !h);
    kcover!(h && l);
}

#[cfg_attr(kani, kani::proof)]
#[cfg_attr(kani, kani::unwind(18))]
pub fn validate_all() {
    let (o, r, s): (usize, usize, usize) = (k::any(), k::any(), k::any());
    let d = validate_spec(o, r, s, 0);
    assert_eq!(DefaultRate::<NoSimd>::validate(o, r, s), d);
    assert_eq!(DefaultRateEncoder::<NoSimd>::validate(o, r, s), d);
    assert_eq!(DefaultRateDecoder::<NoSimd>::validate(o, r, s), d);
    let h = validate_spec(o, r, s, 1);
    assert_eq!(HighRate::<NoSimd>::validate(o, r, s), h);
    assert_eq!(HighRateEncoder::<NoSimd>::validate(o, r, s), h);
    assert_eq!(HighRateDecoder::<NoSimd>::validate(o, r, s), h);
    let l = validate_spec(o, r, s, 2);
    assert_eq!(LowRate::<NoSimd>::validate(o, r, s), l);
    assert_eq!(LowRateEncoder::<NoSimd>::validate(o, r, s), l);
    assert_eq!(LowRateDecoder::<NoSimd>::validate(o, r, s), l);
    kcover!(d.is_ok() && s > 1 << 40);
    kcover!(matches!(d, Err(Error::InvalidShardSize { .. })));
    kcover!(matches!(h, Err(Error::UnsupportedShardCount { .. })) && l.is_ok());
}

/// work-space arithmetic for EVERY supported pair (full 64-bit width):
/// what `new` allocates is enough for every position encode/decode touch and
/// every skew-table index stays in range.
#[cfg_attr(kani, kani::proof)]
#[cfg_attr(kani, kani::unwind(18))]
pub fn work_arith_high() {
    let (o, r): (usize, usize) = (k::any(), k::any());
    k::assume(HighRate::<NullEngine>::supports(o, r));
    let chunk = r.next_power_of_two();
    let ew = HighRateEncoder::<NullEngine>::verif_work_count(o, r);
    let dw = HighRateDecoder::<NullEngine>::verif_work_count(o, r);
    // encoder: originals fit, every chunk [c, c+chunk) fits, recovery fits,
    // ifft_skew_end(c, chunk) uses skew indexes < c + 2*chunk - 1 <= 65535
    assert!(ew >= o && ew >= chunk && r <= chunk);
    assert!(ew % chunk == 0 && ew < o + chunk);
    assert!(ew + chunk <= 65536);
    // decoder: recovery at 0.., originals at chunk.., fft over the whole work
    assert!(dw.is_power_of_two() && dw <= 65536);
    assert!(chunk + o <= dw && r <= chunk);
    kcover!(ew + chunk == 65536);
    kcover!(dw == 65536 && o == 61440);
}

#[cfg_attr(kani, kani::proof)]
#[cfg_attr(kani, kani::unwind(18))]
pub fn work_arith_low() {
    let (o, r): (usize, usize) = (k::any(), k::any());
    k::assume(LowRate::<NullEngine>::supports(o, r));
    let chunk = o.next_power_of_two();
    let ew = LowRateEncoder::<NullEngine>::verif_work_count(o, r);
    let dw = LowRateDecoder::<NullEngine>::verif_work_count(o, r);
    // encoder: originals in chunk 0, copies of it up to r, fft_skew_end(c, chunk)
    // uses skew indexes < c + 2*chunk - 1 <= 65535
    assert!(ew >= chunk && o <= chunk && ew >= r);
    assert!(ew % chunk == 0 && ew < r + chunk);
    assert!(ew + chunk <= 65536);
    assert!(dw.is_power_of_two() && dw <= 65536);
    assert!(chunk + r <= dw);
    kcover!(ew + chunk == 65536);
    kcover!(dw == 65536 && r == 61440);
}
