use reed_solomon_simd::engine::NoSimd;
use reed_solomon_simd::rate::{DefaultRate, HighRate, LowRate, Rate};

fn envelope(o: usize, r: usize) -> bool {
    if o < 1 || r < 1 { return false; }
    let mut n = 0u32;
    let mut ok = false;
    while n <= 16 {
        let p = 1usize << n;
        let q = 65536usize - p;
        if (o <= p && r <= q) || (r <= p && o <= q) { ok = true; }
        n += 1;
    }
    ok
}

#[kani::proof]
#[kani::unwind(18)]
fn c08_default_supports_envelope() {
    let o: usize = kani::any();
    let r: usize = kani::any();
    assert_eq!(DefaultRate::<NoSimd>::supports(o, r), envelope(o, r));
    kani::cover!(envelope(o, r));
    kani::cover!(!envelope(o, r));
}
