#![allow(dead_code, unused_imports, clippy::all)]
pub mod model;
#[cfg(kani)]
mod c08;
