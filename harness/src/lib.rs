#![allow(dead_code, unused_imports, unused_macros, clippy::all)]
//! Solver harnesses for reed-solomon-simd. Compiles two ways:
//!  * `cargo kani`: every `h!`/`cfg_attr(kani, kani::proof)` function is a proof harness;
//!  * natively (bin `replay`): the same functions re-run on a recorded witness.

/// `h!(name, unwind, body)` declares one proof harness.
#[macro_export]
macro_rules! h {
    ($name:ident, $unw:expr, $body:expr) => {
        #[cfg_attr(kani, kani::proof)]
        #[cfg_attr(kani, kani::unwind($unw))]
        pub fn $name() {
            $body
        }
    };
}

/// like `h!` but with `[T]::fill` replaced by the ghost-range model (stubs.rs);
/// needed wherever the low-rate decoder's `erasures[..].fill(1)` is executed.
#[macro_export]
macro_rules! hf {
    ($name:ident, $unw:expr, $body:expr) => {
        #[cfg_attr(kani, kani::proof)]
        #[cfg_attr(kani, kani::unwind($unw))]
        #[cfg_attr(kani, kani::stub(core::slice::specialize::SpecFill::spec_fill, crate::stubs::stub_spec_fill))]
        pub fn $name() {
            $body
        }
    };
}

/// like `h!` with the two byte-shuffle intrinsics replaced by Rust models
/// (Kani cannot translate pshufb); for harnesses running Ssse3/Avx2 code.
#[macro_export]
macro_rules! hx {
    ($name:ident, $unw:expr, $body:expr) => {
        #[cfg_attr(kani, kani::proof)]
        #[cfg_attr(kani, kani::unwind($unw))]
        #[cfg_attr(kani, kani::stub(std::arch::x86_64::_mm_shuffle_epi8, crate::c15::shuf::mm_shuffle_epi8))]
        #[cfg_attr(kani, kani::stub(std::arch::x86_64::_mm256_shuffle_epi8, crate::c15::shuf::mm256_shuffle_epi8))]
        pub fn $name() {
            $body
        }
    };
}

pub mod k;
pub mod codec;
pub mod gen;
pub mod model;
pub mod neon_emul;
pub mod stubs;
pub mod c01;
pub mod c02;
pub mod c04;
pub mod c05;
pub mod c06;
pub mod c07;
pub mod c08;
pub mod c09;
pub mod c10;
pub mod c11;
pub mod c12;
pub mod c14;
pub mod c15;
pub mod c15e;
pub mod c17;
pub mod scratch;
