#![allow(dead_code, unused_imports, clippy::all)]
#[cfg(kani)]
mod c08;
