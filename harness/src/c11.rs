//! C11 — decoding is independent of arrival order. State confluence in
//! adjacent-transposition form: two further add calls applied in both orders
//! to twin decoders leave them in the same logical state (configuration,
//! counters, bitmap, every byte of working memory); every permutation is a
//! product of adjacent swaps, and decode is a function of that state.
use crate::codec::*;
use crate::model::NullEngine;
use crate::{k, kcover};
use reed_solomon_simd::rate::*;

const SB: usize = 2;

/// kinds: 0 = original/original, 1 = original/recovery, 2 = recovery/recovery.
/// prefix: bit i of `pre_o`/`pre_r` = shard i given before the two calls.
pub fn confluence<D: Dec + DecState>(kk: usize, r: usize, kinds: u32, pre_o: u32, pre_r: u32) {
    let mut t1 = D::mk(kk, r, SB).unwrap();
    let mut t2 = D::mk(kk, r, SB).unwrap();
    let mut i = 0;
    while i < kk {
        if pre_o >> i & 1 == 1 {
            let s: [u8; 2] = k::any();
            t1.add_o(i, &s).unwrap();
            t2.add_o(i, &s).unwrap();
        }
        i += 1;
    }
    let mut j = 0;
    while j < r {
        if pre_r >> j & 1 == 1 {
            let s: [u8; 2] = k::any();
            t1.add_r(j, &s).unwrap();
            t2.add_r(j, &s).unwrap();
        }
        j += 1;
    }
    let a_orig = kinds != 2;
    let b_orig = kinds == 0;
    let ia: usize = k::any();
    let ib: usize = k::any();
    let sa: [u8; 2] = k::any();
    let sb: [u8; 2] = k::any();
    // both calls are valid: in range, not given before, distinct if of the same kind
    k::assume(ia < if a_orig { kk } else { r });
    k::assume(ib < if b_orig { kk } else { r });
    k::assume((if a_orig { pre_o } else { pre_r }) >> ia & 1 == 0);
    k::assume((if b_orig { pre_o } else { pre_r }) >> ib & 1 == 0);
    k::assume(a_orig != b_orig || ia != ib);
    // T1: A then B
    let r1a = if a_orig { t1.add_o(ia, &sa) } else { t1.add_r(ia, &sa) };
    let r1b = if b_orig { t1.add_o(ib, &sb) } else { t1.add_r(ib, &sb) };
    // T2: B then A
    let r2b = if b_orig { t2.add_o(ib, &sb) } else { t2.add_r(ib, &sb) };
    let r2a = if a_orig { t2.add_o(ia, &sa) } else { t2.add_r(ia, &sa) };
    assert!(r1a.is_ok() && r1b.is_ok() && r2a.is_ok() && r2b.is_ok());
    assert!(t1.snap().same(&t2.snap(), false), "the decoder state depends on the order of the add calls");
    kcover!(r1a.is_ok() && r2a.is_ok());
}
