//! C17 — working space is reused in place. Allocation cannot be counted under
//! Kani (custom global allocators are ignored), so the property is decided
//! as pointer/capacity stability of the two shard-proportional buffers
//! (Shards.data, received bitmap) through the read-only hook view.
use crate::codec::*;
use crate::model::NullEngine;
use crate::{k, kcover};
use reed_solomon_simd::rate::*;

fn blocks(sb: usize) -> usize {
    (sb + 63) / 64
}

/// encoder: rounds without reset, then reset to (k2,r2,sb2); `same_rate`:
/// reset on the same codec; otherwise into_parts -> new(Some(work)) of the
/// other rate (what the default-rate codec does when the rule changes).
pub fn enc_reuse<E1: Enc + EncState, E2: Enc + EncState>(
    k1: usize, r1: usize, sb1: usize, k2: usize, r2: usize, sb2: usize, same_rate: bool,
    to_other: fn(E1, usize, usize, usize) -> E2,
) {
    let mut e = E1::mk(k1, r1, sb1).unwrap();
    let v0 = e.snap().view.unwrap().shards;
    // two rounds: add, encode, read, drop
    let mut round = 0;
    while round < 2 {
        let mut i = 0;
        while i < k1 {
            let s = vec![k::any::<u8>(); sb1];
            e.add(&s).unwrap();
            i += 1;
        }
        {
            let out = e.enc();
            let res = out.unwrap();
            assert!(res.recovery(0).is_some());
        }
        let v = e.snap().view.unwrap().shards;
        assert!(v.data_ptr == v0.data_ptr && v.data_capacity == v0.data_capacity, "a round reallocated the working space");
        round += 1;
    }
    let need2_fits = |cap: usize, wc2: usize| wc2 * blocks(sb2) <= cap;
    let _ = same_rate;
    {
        let e2 = to_other(e, k2, r2, sb2);
        let v = e2.snap().view.unwrap().shards;
        if need2_fits(v0.data_capacity, v.shard_count) {
            assert!(v.data_ptr == v0.data_ptr && v.data_capacity == v0.data_capacity, "handing the working space to another codec reallocated it");
        } else {
            assert!(v.data_capacity >= v.shard_count * v.shard_len_64);
        }
    }
}

pub fn high_to_low_enc<X: reed_solomon_simd::engine::Engine>(e: HighRateEncoder<X>, k: usize, r: usize, sb: usize) -> LowRateEncoder<X> {
    let (eng, work) = e.into_parts();
    LowRateEncoder::new(k, r, sb, eng, Some(work)).unwrap()
}
pub fn low_to_high_enc<X: reed_solomon_simd::engine::Engine>(e: LowRateEncoder<X>, k: usize, r: usize, sb: usize) -> HighRateEncoder<X> {
    let (eng, work) = e.into_parts();
    HighRateEncoder::new(k, r, sb, eng, Some(work)).unwrap()
}
pub fn high_id_enc<X: reed_solomon_simd::engine::Engine>(mut e: HighRateEncoder<X>, k: usize, r: usize, sb: usize) -> HighRateEncoder<X> {
    e.reset(k, r, sb).unwrap();
    e
}
pub fn low_id_enc<X: reed_solomon_simd::engine::Engine>(mut e: LowRateEncoder<X>, k: usize, r: usize, sb: usize) -> LowRateEncoder<X> {
    e.reset(k, r, sb).unwrap();
    e
}

/// decoder: adds + (complete) decode round without reset, then reset / hand-over
pub fn dec_reuse<D1: Dec + DecState, D2: Dec + DecState>(
    k1: usize, r1: usize, sb1: usize, k2: usize, r2: usize, sb2: usize, same_rate: bool,
    to_other: fn(D1, usize, usize, usize) -> D2,
) {
    let mut d = D1::mk(k1, r1, sb1).unwrap();
    let w0 = d.snap().view.unwrap();
    let mut round = 0;
    while round < 2 {
        let mut i = 0;
        while i < k1 {
            let s = vec![k::any::<u8>(); sb1];
            d.add_o(i, &s).unwrap();
            i += 1;
        }
        {
            let out = d.dec();
            assert!(out.is_ok());
        }
        let w = d.snap().view.unwrap();
        assert!(w.shards.data_ptr == w0.shards.data_ptr && w.shards.data_capacity == w0.shards.data_capacity, "a round reallocated the working space");
        assert!(w.received_ptr == w0.received_ptr, "a round reallocated the received bitmap");
        round += 1;
    }
    let _ = same_rate;
    let w = to_other(d, k2, r2, sb2).snap().view.unwrap();
    if w.shards.shard_count * w.shards.shard_len_64 <= w0.shards.data_capacity {
        assert!(w.shards.data_ptr == w0.shards.data_ptr && w.shards.data_capacity == w0.shards.data_capacity, "a non-growing reset reallocated the working space");
    } else {
        assert!(w.shards.data_capacity >= w.shards.shard_count * w.shards.shard_len_64);
    }
    // bitmap: needs max(base + count) bits; never shrinks, grows only when needed
    let need_bits = core::cmp::max(w.original_base_pos + w.original_count, w.recovery_base_pos + w.recovery_count);
    assert!(w.received_len >= need_bits);
    if need_bits <= w0.received_len {
        assert!(w.received_ptr == w0.received_ptr && w.received_len == w0.received_len, "a non-growing reset reallocated the received bitmap");
    }
}

pub fn high_to_low_dec<X: reed_solomon_simd::engine::Engine>(d: HighRateDecoder<X>, k: usize, r: usize, sb: usize) -> LowRateDecoder<X> {
    let (eng, work) = d.into_parts();
    LowRateDecoder::new(k, r, sb, eng, Some(work)).unwrap()
}
pub fn low_to_high_dec<X: reed_solomon_simd::engine::Engine>(d: LowRateDecoder<X>, k: usize, r: usize, sb: usize) -> HighRateDecoder<X> {
    let (eng, work) = d.into_parts();
    HighRateDecoder::new(k, r, sb, eng, Some(work)).unwrap()
}
pub fn high_id_dec<X: reed_solomon_simd::engine::Engine>(mut d: HighRateDecoder<X>, k: usize, r: usize, sb: usize) -> HighRateDecoder<X> {
    d.reset(k, r, sb).unwrap();
    d
}
pub fn low_id_dec<X: reed_solomon_simd::engine::Engine>(mut d: LowRateDecoder<X>, k: usize, r: usize, sb: usize) -> LowRateDecoder<X> {
    d.reset(k, r, sb).unwrap();
    d
}

/// chains of resets on one object (third-round seed `C17c`): after the working space was
/// sized by the first configuration, every later reset whose need fits into the capacity
/// HELD (not the current length) must keep pointer and capacity — including growing again
/// after a shrink. Rounds in between exercise the buffers.
pub fn enc_chain<E: Enc + EncState>(cfgs: &[(usize, usize, usize)]) {
    let (k0, r0, s0) = cfgs[0];
    let mut e = E::mk(k0, r0, s0).unwrap();
    let v0 = e.snap().view.unwrap().shards;
    let mut n = 1;
    while n < cfgs.len() {
        let (kk, rr, sb) = cfgs[n];
        e.rst(kk, rr, sb).unwrap();
        let v = e.snap().view.unwrap().shards;
        assert!(v.shard_count * v.shard_len_64 <= v0.data_capacity);
        assert!(v.data_ptr == v0.data_ptr && v.data_capacity == v0.data_capacity, "a reset that fits in the held working space reallocated it");
        let mut i = 0;
        while i < kk {
            let s = vec![k::any::<u8>(); sb];
            e.add(&s).unwrap();
            i += 1;
        }
        {
            let out = e.enc();
            assert!(out.unwrap().recovery(0).is_some());
        }
        let v = e.snap().view.unwrap().shards;
        assert!(v.data_ptr == v0.data_ptr && v.data_capacity == v0.data_capacity, "a round reallocated the working space");
        n += 1;
    }
    kcover!(true);
}

pub fn dec_chain<D: Dec + DecState>(cfgs: &[(usize, usize, usize)]) {
    let (k0, r0, s0) = cfgs[0];
    let mut d = D::mk(k0, r0, s0).unwrap();
    let w0 = d.snap().view.unwrap();
    let mut n = 1;
    while n < cfgs.len() {
        let (kk, rr, sb) = cfgs[n];
        d.rst(kk, rr, sb).unwrap();
        let w = d.snap().view.unwrap();
        assert!(w.shards.shard_count * w.shards.shard_len_64 <= w0.shards.data_capacity);
        assert!(w.shards.data_ptr == w0.shards.data_ptr && w.shards.data_capacity == w0.shards.data_capacity, "a reset that fits in the held working space reallocated it");
        let need_bits = core::cmp::max(w.original_base_pos + w.original_count, w.recovery_base_pos + w.recovery_count);
        assert!(need_bits <= w0.received_len);
        assert!(w.received_ptr == w0.received_ptr && w.received_len == w0.received_len, "a non-growing reset reallocated the received bitmap");
        let mut i = 0;
        while i < kk {
            let s = vec![k::any::<u8>(); sb];
            d.add_o(i, &s).unwrap();
            i += 1;
        }
        {
            let out = d.dec();
            assert!(out.is_ok());
        }
        let w = d.snap().view.unwrap();
        assert!(w.shards.data_ptr == w0.shards.data_ptr && w.received_ptr == w0.received_ptr, "a round reallocated working memory");
        n += 1;
    }
    kcover!(true);
}
