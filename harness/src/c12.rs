//! C12 — result accessors expose exactly the produced shards; dropping the
//! result starts a new round. NullEngine (bookkeeping is data independent);
//! Kani's full check set.
use crate::codec::*;
use crate::model::NullEngine;
use crate::{k, kcover};
use reed_solomon_simd::rate::*;

const SB: usize = 2;

pub fn enc_result<E: Enc + EncState>(kk: usize, r: usize) {
    let mut e = E::mk(kk, r, SB).unwrap();
    let mut round = 0;
    while round < 3 {
        let mut i = 0;
        while i < kk {
            let s: [u8; 2] = k::any();
            e.add(&s).unwrap();
            i += 1;
        }
        {
            let out = e.enc();
            let res = out.unwrap();
            // recovery(i) for an UNBOUNDED index
            let idx: usize = k::any();
            match res.recovery(idx) {
                Some(s) => {
                    assert!(idx < r, "recovery(i) is Some for i >= recovery_count");
                    assert!(s.len() == SB);
                }
                None => assert!(idx >= r, "recovery(i) is None for i < recovery_count"),
            }
            kcover!(idx == usize::MAX);
            kcover!(r > 0 && idx == r - 1);
            // the iterator yields exactly recovery(0..r) in order, then None forever
            let mut it = res.recovery_iter();
            let mut j = 0;
            while j < r {
                let a = it.next().unwrap();
                let b = res.recovery(j).unwrap();
                assert!(a.as_ptr() == b.as_ptr() && a.len() == SB);
                j += 1;
            }
            assert!(it.next().is_none());
            assert!(it.next().is_none());
            assert!(it.next().is_none());
        } // result dropped: the added shards are forgotten
        assert!(e.snap().view.unwrap().original_received_count == 0, "dropping the result did not forget the added shards");
        round += 1;
    }
}

pub fn dec_result<D: Dec + DecState>(kk: usize, r: usize, om: u32, rm: u32) {
    let mut d = D::mk(kk, r, SB).unwrap();
    let mut round = 0;
    while round < 2 {
        let mut i = 0;
        while i < kk {
            if om >> i & 1 == 1 {
                let s: [u8; 2] = k::any();
                d.add_o(i, &s).unwrap();
            }
            i += 1;
        }
        let mut j = 0;
        while j < r {
            if rm >> j & 1 == 1 {
                let s: [u8; 2] = k::any();
                d.add_r(j, &s).unwrap();
            }
            j += 1;
        }
        {
            let out = d.dec();
            let res = out.unwrap();
            let idx: usize = k::any();
            match res.restored_original(idx) {
                Some(s) => {
                    assert!(idx < kk && (om >> idx) & 1 == 0, "restored_original(i) is Some for a given or out-of-range index");
                    assert!(s.len() == SB);
                }
                None => assert!(idx >= kk || (om >> idx) & 1 == 1, "restored_original(i) is None for a missing original"),
            }
            kcover!(idx == usize::MAX);
            // iterator: ascending (i, restored_original(i)) for exactly the missing originals, then None forever
            let mut it = res.restored_original_iter();
            let mut i = 0;
            while i < kk {
                if om >> i & 1 == 0 {
                    let (n, s) = it.next().unwrap();
                    assert!(n == i);
                    assert!(s.as_ptr() == res.restored_original(i).unwrap().as_ptr() && s.len() == SB);
                }
                i += 1;
            }
            assert!(it.next().is_none());
            assert!(it.next().is_none());
            assert!(it.next().is_none());
        }
        // dropping the result forgot every added shard
        let sn = d.snap();
        let v = sn.view.unwrap();
        assert!(v.original_received_count == 0 && v.recovery_received_count == 0, "dropping the result did not forget the added shards (counters)");
        let mut i = 0;
        while i < 16 {
            assert!(!sn.received[i], "dropping the result did not forget the added shards (bitmap)");
            i += 1;
        }
        round += 1;
    }
}
