use crate::{h, k};
use reed_solomon_simd::ReedSolomonDecoder;
pub fn t_rs_new_add() {
    crate::c10::setup_default_engine();
    let mut d = ReedSolomonDecoder::new(2, 1, 2).unwrap();
    let i: usize = k::any();
    let j: usize = k::any();
    let b: [u8; 2] = k::any();
    let r1 = d.add_original_shard(i, &b);
    let r2 = d.add_original_shard(j, &b);
    assert!(r1.is_ok() == (i < 2));
    assert!(r2.is_ok() == (j < 2 && (i != j)));
}
h!(t_rs, 19, t_rs_new_add());
