//! Native replay of a solver counterexample:
//!   replay <module::harness> <witness value>*
//! exit 0 = harness ran to completion (not reproduced), 101 = panic
//! (reproduced), 3 = witness violates a harness assumption, 4 = unknown harness.
#[cfg(kani)]
fn main() {}

#[cfg(not(kani))]
fn main() {
    let args: Vec<String> = std::env::args().collect();
    let name = &args[1];
    let witness: Vec<u64> = args[2..].iter().map(|s| s.parse().unwrap()).collect();
    rs_verif_harness::k::native::load(witness);
    match rs_verif_harness::gen::dispatch::dispatch(name) {
        Some(f) => {
            f();
            println!("REPLAY: harness {name} completed without a panic");
        }
        None => {
            println!("REPLAY: unknown harness {name}");
            std::process::exit(4);
        }
    }
}
