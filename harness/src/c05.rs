//! C05 — results never depend on what the codec object did before.
//! Stale working memory is made ADVERSARIAL: under the poison hook every
//! block that survives a resize becomes nondeterministic; the next round must
//! still produce exactly the specified bytes (C02's generator form for
//! encoders, the original data for decoders). The round-drop-round path (no
//! resize) runs a first round on fully symbolic data instead.
use crate::c02::sym_of;
use crate::codec::*;
use crate::model::*;
use crate::{k, kcover};
use reed_solomon_simd::rate::*;
use reed_solomon_simd::verif_hooks::set_poison;

pub fn poison_any(stale: &mut [[u8; 64]]) {
    let mut i = 0;
    while i < stale.len() {
        stale[i] = k::any();
        i += 1;
    }
}

fn check_enc<E: Enc>(e: &mut E, kk: usize, r: usize, p: usize, g: &'static [[u16; 16]]) {
    let x: u16 = k::any();
    let mut i = 0;
    while i < kk {
        let s = if i == p { x.to_le_bytes() } else { [0, 0] };
        e.add(&s).unwrap();
        i += 1;
    }
    let out = e.enc();
    let res = out.unwrap();
    let mut j = 0;
    while j < r {
        let rec = res.recovery(j).unwrap();
        assert!(rec.len() == 2);
        assert!(sym_of(rec) == lin(&g[j * kk + p], x), "recovery depends on stale working memory / earlier rounds");
        j += 1;
    }
}

/// encoder configured A (never mind what it did), then reset / handed over
/// to configuration B = (kk, r, 2 bytes) with ALL surviving memory arbitrary
pub fn enc_after_reset<E1: Enc, E2: Enc>(a: (usize, usize, usize), kk: usize, r: usize, p: usize, g: &'static [[u16; 16]], conv: fn(E1, usize, usize, usize) -> E2) {
    set_lanes(1);
    let e1 = E1::mk(a.0, a.1, a.2).unwrap();
    set_poison(Some(poison_any));
    let mut e2 = conv(e1, kk, r, 2);
    set_poison(None);
    check_enc(&mut e2, kk, r, p, g);
}

/// two rounds on one object without reset: round 1 on fully symbolic data
/// (its leftovers are the stale contents), result dropped, round 2 checked
pub fn enc_round_drop_round<E: Enc>(kk: usize, r: usize, p: usize, g: &'static [[u16; 16]]) {
    set_lanes(1);
    let mut e = E::mk(kk, r, 2).unwrap();
    let mut i = 0;
    while i < kk {
        let s: [u8; 2] = k::any();
        e.add(&s).unwrap();
        i += 1;
    }
    {
        let out = e.enc();
        assert!(out.is_ok());
    }
    check_enc(&mut e, kk, r, p, g);
}

fn check_dec<D: Dec, const K: usize, const R: usize>(d: &mut D, om: u32, rm: u32, p: usize, g: &'static [[u16; 16]]) {
    let xv: u16 = k::any();
    let mut i = 0;
    while i < K {
        if om >> i & 1 == 1 {
            let s = if i == p { xv } else { 0 };
            d.add_o(i, &s.to_le_bytes()).unwrap();
        }
        i += 1;
    }
    let mut j = 0;
    while j < R {
        if rm >> j & 1 == 1 {
            d.add_r(j, &lin(&g[j * K + p], xv).to_le_bytes()).unwrap();
        }
        j += 1;
    }
    let out = d.dec();
    let res = out.unwrap();
    let mut i = 0;
    while i < K {
        match res.restored_original(i) {
            Some(s) => {
                assert!(om >> i & 1 == 0 && s.len() == 2);
                assert!(sym_of(s) == if i == p { xv } else { 0 }, "restored data depends on stale working memory / earlier rounds");
            }
            None => assert!(om >> i & 1 == 1),
        }
        i += 1;
    }
}

pub fn dec_after_reset<D1: Dec, D2: Dec, const K: usize, const R: usize>(a: (usize, usize, usize), om: u32, rm: u32, p: usize, g: &'static [[u16; 16]], conv: fn(D1, usize, usize, usize) -> D2) {
    set_lanes(1);
    let d1 = D1::mk(a.0, a.1, a.2).unwrap();
    set_poison(Some(poison_any));
    let mut d2 = conv(d1, K, R, 2);
    set_poison(None);
    check_dec::<D2, K, R>(&mut d2, om, rm, p, g);
}

/// round 1 (pattern om1/rm1, fully symbolic shards, decoded), drop, round 2 (pattern om/rm) checked
pub fn dec_round_drop_round<D: Dec, const K: usize, const R: usize>(om1: u32, rm1: u32, om: u32, rm: u32, p: usize, g: &'static [[u16; 16]]) {
    set_lanes(1);
    let mut d = D::mk(K, R, 2).unwrap();
    let mut i = 0;
    while i < K {
        if om1 >> i & 1 == 1 {
            let s: [u8; 2] = k::any();
            d.add_o(i, &s).unwrap();
        }
        i += 1;
    }
    let mut j = 0;
    while j < R {
        if rm1 >> j & 1 == 1 {
            let s: [u8; 2] = k::any();
            d.add_r(j, &s).unwrap();
        }
        j += 1;
    }
    {
        let out = d.dec();
        assert!(out.is_ok());
    }
    check_dec::<D, K, R>(&mut d, om, rm, p, g);
}

/// state after (adds without a round) + reset/hand-over equals the state of a
/// freshly constructed codec of the target configuration (configuration,
/// counters, every received bit) - working memory aside (covered above)
pub fn dec_reset_state<D1: Dec, D2: Dec + DecState>(a: (usize, usize, usize), om: u32, rm: u32, kk: usize, r: usize, sb: usize, conv: fn(D1, usize, usize, usize) -> D2) {
    let mut d1 = D1::mk(a.0, a.1, a.2).unwrap();
    let s = vec![k::any::<u8>(); a.2];
    let mut i = 0;
    while i < a.0 {
        if om >> i & 1 == 1 {
            d1.add_o(i, &s).unwrap();
        }
        i += 1;
    }
    let mut j = 0;
    while j < a.1 {
        if rm >> j & 1 == 1 {
            d1.add_r(j, &s).unwrap();
        }
        j += 1;
    }
    let d2 = conv(d1, kk, r, sb);
    let fresh = D2::mk(kk, r, sb).unwrap();
    let (x, y) = (d2.snap(), fresh.snap());
    let (vx, vy) = (x.view.unwrap(), y.view.unwrap());
    assert!(vx.original_count == vy.original_count && vx.recovery_count == vy.recovery_count && vx.shard_bytes == vy.shard_bytes);
    assert!(vx.original_base_pos == vy.original_base_pos && vx.recovery_base_pos == vy.recovery_base_pos);
    assert!(vx.original_received_count == 0 && vx.recovery_received_count == 0, "reset kept a received counter");
    assert!(vx.shards.shard_count == vy.shards.shard_count && vx.shards.shard_len_64 == vy.shards.shard_len_64 && vx.shards.data_len == vy.shards.data_len);
    let mut i = 0;
    while i < 16 {
        assert!(!x.received[i], "reset left a received bit set: the reused decoder differs from a fresh one");
        i += 1;
    }
}

pub fn enc_reset_state<E1: Enc, E2: Enc + EncState>(a: (usize, usize, usize), n: usize, kk: usize, r: usize, sb: usize, conv: fn(E1, usize, usize, usize) -> E2) {
    let mut e1 = E1::mk(a.0, a.1, a.2).unwrap();
    let s = vec![k::any::<u8>(); a.2];
    let mut i = 0;
    while i < n {
        e1.add(&s).unwrap();
        i += 1;
    }
    let e2 = conv(e1, kk, r, sb);
    let fresh = E2::mk(kk, r, sb).unwrap();
    let (vx, vy) = (e2.snap().view.unwrap(), fresh.snap().view.unwrap());
    assert!(vx.original_count == vy.original_count && vx.recovery_count == vy.recovery_count && vx.shard_bytes == vy.shard_bytes);
    assert!(vx.original_received_count == 0, "reset kept the received counter");
    assert!(vx.shards.shard_count == vy.shards.shard_count && vx.shards.shard_len_64 == vy.shards.shard_len_64 && vx.shards.data_len == vy.shards.data_len);
}
