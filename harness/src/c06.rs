//! C06 — invalid use yields a truthful documented Error; valid use never
//! fails; no panics (Kani's full check set is ON for every harness here).
use crate::k;
use crate::{h, kcover};
use crate::codec::*;
use crate::model::NullEngine;
use reed_solomon_simd::rate::*;
use reed_solomon_simd::Error;

pub const SB: usize = 2;

pub struct DecSpec {
    pub k: usize,
    pub r: usize,
    pub got_o: [bool; 4],
    pub got_r: [bool; 4],
    pub n_o: usize,
    pub n_r: usize,
}

impl DecSpec {
    pub fn new(k: usize, r: usize) -> Self {
        Self { k, r, got_o: [false; 4], got_r: [false; 4], n_o: 0, n_r: 0 }
    }
}

/// One add call with UNBOUNDED symbolic index and a symbolic length 0..=6,
/// checked against the documented preconditions.
pub fn checked_add<D: Dec>(d: &mut D, sp: &mut DecSpec, buf: &[u8; 6]) -> bool {
    let is_orig: bool = k::any();
    let idx: usize = k::any();
    let len: usize = k::any();
    k::assume(len <= 6);
    let shard = &buf[..len];
    let res = if is_orig { d.add_o(idx, shard) } else { d.add_r(idx, shard) };
    let count = if is_orig { sp.k } else { sp.r };
    let bad_index = idx >= count;
    let dup = !bad_index && if is_orig { sp.got_o[idx] } else { sp.got_r[idx] };
    let bad_len = len != SB;
    match res {
        Ok(()) => {
            assert!(!bad_index && !dup && !bad_len, "add returned Ok although a precondition is violated");
            if is_orig {
                sp.got_o[idx] = true;
                sp.n_o += 1;
            } else {
                sp.got_r[idx] = true;
                sp.n_r += 1;
            }
            true
        }
        Err(e) => {
            assert!(bad_index || dup || bad_len, "add failed although no precondition is violated");
            let truthful = match e {
                Error::InvalidOriginalShardIndex { original_count, index } => {
                    is_orig && bad_index && original_count == sp.k && index == idx
                }
                Error::InvalidRecoveryShardIndex { recovery_count, index } => {
                    !is_orig && bad_index && recovery_count == sp.r && index == idx
                }
                Error::DuplicateOriginalShardIndex { index } => is_orig && dup && index == idx,
                Error::DuplicateRecoveryShardIndex { index } => !is_orig && dup && index == idx,
                Error::DifferentShardSize { shard_bytes, got } => bad_len && shard_bytes == SB && got == len,
                _ => false,
            };
            assert!(truthful, "add returned an Err that does not describe a violated precondition");
            kcover!(idx == usize::MAX);
            false
        }
    }
}

pub fn checked_decode<D: Dec>(d: &mut D, sp: &DecSpec) {
    let enough = sp.n_o + sp.n_r >= sp.k;
    match d.dec() {
        Ok(_) => assert!(enough, "decode returned Ok with too few shards"),
        Err(e) => {
            assert!(!enough, "decode failed although enough shards were added");
            assert_eq!(
                e,
                Error::NotEnoughShards {
                    original_count: sp.k,
                    original_received_count: sp.n_o,
                    recovery_received_count: sp.n_r
                }
            );
        }
    }
}

/// Concrete add pattern (bit i of `om`/`rm` = shard i is given), symbolic
/// data, then decode: Ok iff enough shards, NotEnoughShards truthful; after an
/// Ok, restored_original(i) is Some exactly for the missing originals.
/// Run with Kani's FULL check set: decode is panic-free for this pattern.
pub fn dec_pattern<D: Dec>(k: usize, r: usize, om: u32, rm: u32) {
    let mut d = D::mk(k, r, SB).unwrap();
    let mut sp = DecSpec::new(k, r);
    let mut i = 0;
    while i < k {
        if om >> i & 1 == 1 {
            let s: [u8; 2] = k::any();
            d.add_o(i, &s).unwrap();
            sp.got_o[i] = true;
            sp.n_o += 1;
        }
        i += 1;
    }
    let mut i = 0;
    while i < r {
        if rm >> i & 1 == 1 {
            let s: [u8; 2] = k::any();
            d.add_r(i, &s).unwrap();
            sp.n_r += 1;
        }
        i += 1;
    }
    let enough = sp.n_o + sp.n_r >= k;
    let out = d.dec();
    match out {
        Ok(res) => {
            assert!(enough, "decode returned Ok with too few shards");
            let mut i = 0;
            while i < k {
                assert_eq!(res.restored_original(i).is_some(), !sp.got_o[i]);
                i += 1;
            }
        }
        Err(e) => {
            assert!(!enough, "decode failed although enough shards were added");
            assert_eq!(
                e,
                Error::NotEnoughShards { original_count: k, original_received_count: sp.n_o, recovery_received_count: sp.n_r }
            );
        }
    }
}

/// Object state reached through a HISTORY: decoder configured (k1,r1), shards
/// given by the masks (no decode), then a valid reset to (k,r): the next three
/// arbitrary add calls must behave exactly as on a fresh decoder.
pub fn dec_adds_after_reset<D: Dec>(k1: usize, r1: usize, om: u32, rm: u32, k: usize, r: usize) {
    let mut d = D::mk(k1, r1, SB).unwrap();
    let s: [u8; 2] = k::any();
    let mut i = 0;
    while i < k1 {
        if om >> i & 1 == 1 {
            d.add_o(i, &s).unwrap();
        }
        i += 1;
    }
    let mut j = 0;
    while j < r1 {
        if rm >> j & 1 == 1 {
            d.add_r(j, &s).unwrap();
        }
        j += 1;
    }
    d.rst(k, r, SB).unwrap();
    let mut sp = DecSpec::new(k, r);
    let buf: [u8; 6] = k::any();
    let a = checked_add(&mut d, &mut sp, &buf);
    let b = checked_add(&mut d, &mut sp, &buf);
    let c = checked_add(&mut d, &mut sp, &buf);
    kcover!(a && b && c);
}

/// Like dec_calls but without decode (cheap; run for every codec type).
pub fn dec_adds_only<D: Dec>(k: usize, r: usize) {
    let mut d = D::mk(k, r, SB).unwrap();
    let mut sp = DecSpec::new(k, r);
    let buf: [u8; 6] = k::any();
    let a = checked_add(&mut d, &mut sp, &buf);
    let b = checked_add(&mut d, &mut sp, &buf);
    let c = checked_add(&mut d, &mut sp, &buf);
    kcover!(a && b && c);
    kcover!(!a && !b && !c);
}

/// `good` valid adds, then one add with a WRONG length, then (if
/// good == k) one surplus add, then encode. Every Result checked.
pub fn enc_calls<E: Enc>(k: usize, r: usize, good: usize, len: usize) {
    let mut e = E::mk(k, r, SB).unwrap();
    let buf: [u8; 6] = k::any();
    let mut n = 0;
    while n < good {
        let s: [u8; 2] = k::any();
        e.add(&s).unwrap();
        n += 1;
    }
    // `len` is concrete per harness (a symbolic length makes CBMC walk the
    // infeasible copy of a symbolic number of bytes)
    match e.add(&buf[..len]) {
        Ok(()) => panic!("add accepted a shard of the wrong length"),
        Err(err) => {
            let truthful = match err {
                Error::TooManyOriginalShards { original_count } => good == k && original_count == k,
                Error::DifferentShardSize { shard_bytes, got } => shard_bytes == SB && got == len,
                _ => false,
            };
            assert!(truthful);
        }
    }
    if good == k {
        let s: [u8; 2] = k::any();
        assert_eq!(e.add(&s), Err(Error::TooManyOriginalShards { original_count: k }));
    }
    let out = e.enc();
    match out {
        Ok(res) => {
            assert!(good == k);
            assert!(res.recovery(0).is_some());
        }
        Err(err) => {
            assert!(good != k);
            assert_eq!(err, Error::TooFewOriginalShards { original_count: k, original_received_count: good });
        }
    }
}

/// new() with fully symbolic INVALID arguments: Err, truthful. (The Ok side
/// allocates; it is covered by the concrete-class harnesses and C01.)
pub fn new_invalid_enc<E: Enc>() {
    let (o, r, s): (usize, usize, usize) = (k::any(), k::any(), k::any());
    k::assume(validate_spec(o, r, s, E::SIDE).is_err());
    match E::mk(o, r, s) {
        Ok(_) => panic!("new returned Ok for an invalid configuration"),
        Err(e) => assert!(truthful_config_error(e, o, r, s, E::SIDE)),
    }
    kcover!(envelope(o, r, E::SIDE) && s == usize::MAX);
    kcover!(o == usize::MAX && r == usize::MAX);
}
pub fn new_invalid_dec<D: Dec>() {
    let (o, r, s): (usize, usize, usize) = (k::any(), k::any(), k::any());
    k::assume(validate_spec(o, r, s, D::SIDE).is_err());
    match D::mk(o, r, s) {
        Ok(_) => panic!("new returned Ok for an invalid configuration"),
        Err(e) => assert!(truthful_config_error(e, o, r, s, D::SIDE)),
    }
    kcover!(envelope(o, r, D::SIDE) && s == usize::MAX);
    kcover!(o == usize::MAX && r == usize::MAX);
}

/// reset() with fully symbolic INVALID arguments on a live object (one shard
/// added): Err, truthful; and the very next call does not panic.
pub fn reset_invalid_enc<E: Enc>(k: usize, r: usize) {
    let mut e = E::mk(k, r, SB).unwrap();
    let buf: [u8; 2] = k::any();
    e.add(&buf).unwrap();
    let (o, rr, s): (usize, usize, usize) = (k::any(), k::any(), k::any());
    k::assume(validate_spec(o, rr, s, E::SIDE).is_err());
    match e.rst(o, rr, s) {
        Ok(()) => panic!("reset returned Ok for an invalid configuration"),
        Err(err) => assert!(truthful_config_error(err, o, rr, s, E::SIDE)),
    }
    // the object must still be usable (no panic); what it returns is C07's business
    let _ = e.add(&buf);
    kcover!(envelope(o, rr, E::SIDE) && s == 3);
    kcover!(!envelope(o, rr, E::SIDE));
}
pub fn reset_invalid_dec<D: Dec>(k: usize, r: usize) {
    let mut d = D::mk(k, r, SB).unwrap();
    let buf: [u8; 2] = k::any();
    d.add_o(0, &buf).unwrap();
    let (o, rr, s): (usize, usize, usize) = (k::any(), k::any(), k::any());
    k::assume(validate_spec(o, rr, s, D::SIDE).is_err());
    match d.rst(o, rr, s) {
        Ok(()) => panic!("reset returned Ok for an invalid configuration"),
        Err(err) => assert!(truthful_config_error(err, o, rr, s, D::SIDE)),
    }
    let _ = d.add_r(0, &buf);
    kcover!(envelope(o, rr, D::SIDE) && s == 3);
    kcover!(!envelope(o, rr, D::SIDE));
}

/// reset() with arguments of one invalid CLASS (the deciding feature is
/// concrete so the solver never walks an infeasible allocation path; the other
/// arguments stay fully symbolic), on a live object; then the next call.
/// class: 0: o=0 | 1: r=0 | 2: o=65536 | 3: r=65536 | 4: o=usize::MAX | 5: r=usize::MAX
///        | 6: (40000,40000) | 7: supported (k2,r2) + size 0 | 8: + size 1 | 9: + size 3 | 10: + size usize::MAX
pub fn class_args(class: u32, k2: usize, r2: usize) -> (usize, usize, usize) {
    let (a, b, c): (usize, usize, usize) = (k::any(), k::any(), k::any());
    match class {
        0 => (0, b, c),
        1 => (a, 0, c),
        2 => (65536, b, c),
        3 => (a, 65536, c),
        4 => (usize::MAX, b, c),
        5 => (a, usize::MAX, c),
        6 => (40000, 40000, c),
        7 => (k2, r2, 0),
        8 => (k2, r2, 1),
        9 => (k2, r2, 3),
        _ => (k2, r2, usize::MAX),
    }
}
pub fn reset_class_enc<E: Enc>(k: usize, r: usize, class: u32, k2: usize, r2: usize) {
    let mut e = E::mk(k, r, SB).unwrap();
    let buf: [u8; 2] = k::any();
    e.add(&buf).unwrap();
    let (o, rr, s) = class_args(class, k2, r2);
    match e.rst(o, rr, s) {
        Ok(()) => panic!("reset returned Ok for an invalid configuration"),
        Err(err) => assert!(truthful_config_error(err, o, rr, s, E::SIDE)),
    }
    let _ = e.add(&buf);
}
pub fn reset_class_dec<D: Dec>(k: usize, r: usize, class: u32, k2: usize, r2: usize) {
    let mut d = D::mk(k, r, SB).unwrap();
    let buf: [u8; 2] = k::any();
    d.add_o(0, &buf).unwrap();
    let (o, rr, s) = class_args(class, k2, r2);
    match d.rst(o, rr, s) {
        Ok(()) => panic!("reset returned Ok for an invalid configuration"),
        Err(err) => assert!(truthful_config_error(err, o, rr, s, D::SIDE)),
    }
    let _ = d.add_r(0, &buf);
}

/// top-level API (ReedSolomonEncoder / ReedSolomonDecoder = DefaultRate over DefaultEngine): add calls
/// with unbounded indexes, constructor with invalid arguments, reset with an invalid class. Run with
/// `-Z restrict-vtable` (the boxed engine's drop glue otherwise costs minutes).
pub fn rs_enc_add_calls(k: usize, r: usize) {
    let mut e = RsEnc::mk(k, r, SB).unwrap();
    let buf: [u8; 6] = k::any();
    let s: [u8; 2] = k::any();
    assert!(e.add(&s).is_ok());
    assert_eq!(e.add(&buf[..3]), Err(Error::DifferentShardSize { shard_bytes: SB, got: 3 }));
    let mut n = 1;
    while n < k {
        e.add(&s).unwrap();
        n += 1;
    }
    assert_eq!(e.add(&s), Err(Error::TooManyOriginalShards { original_count: k }));
}

/// ReedSolomonDecoder: add calls with UNBOUNDED symbolic indexes and the correct length (a symbolic
/// length through the boxed/enum-wrapped codec runs out of memory; lengths: dedicated codecs)
pub fn rs_dec_index_calls(k: usize, r: usize) {
    let mut d = RsDec::mk(k, r, SB).unwrap();
    let s: [u8; 2] = k::any();
    let (i, j, l): (usize, usize, usize) = (k::any(), k::any(), k::any());
    let a = d.add_o(i, &s);
    let b = d.add_o(j, &s);
    let c = d.add_r(l, &s);
    match a {
        Ok(()) => assert!(i < k),
        Err(e) => assert!(i >= k && e == Error::InvalidOriginalShardIndex { original_count: k, index: i }),
    }
    match b {
        Ok(()) => assert!(j < k && !(a.is_ok() && i == j)),
        Err(e) => {
            if j >= k {
                assert!(e == Error::InvalidOriginalShardIndex { original_count: k, index: j });
            } else {
                assert!(a.is_ok() && i == j && e == Error::DuplicateOriginalShardIndex { index: j });
            }
        }
    }
    match c {
        Ok(()) => assert!(l < r),
        Err(e) => assert!(l >= r && e == Error::InvalidRecoveryShardIndex { recovery_count: r, index: l }),
    }
    kcover!(i == usize::MAX);
}

type N = NullEngine;
// decoder: adds only, other shapes
h!(dec_adds_high_3_1, 20, dec_adds_only::<HighRateDecoder<N>>(3, 1));
h!(dec_adds_low_1_3, 20, dec_adds_only::<LowRateDecoder<N>>(1, 3));
h!(dec_adds_high_4_4, 20, dec_adds_only::<HighRateDecoder<N>>(4, 4));
h!(dec_adds_low_4_4, 20, dec_adds_only::<LowRateDecoder<N>>(4, 4));
// new / reset with invalid arguments
h!(new_invalid_high_enc, 20, new_invalid_enc::<HighRateEncoder<N>>());
h!(new_invalid_low_enc, 20, new_invalid_enc::<LowRateEncoder<N>>());
h!(new_invalid_default_enc, 20, new_invalid_enc::<DefaultRateEncoder<N>>());
h!(new_invalid_high_dec, 20, new_invalid_dec::<HighRateDecoder<N>>());
h!(new_invalid_low_dec, 20, new_invalid_dec::<LowRateDecoder<N>>());
h!(new_invalid_default_dec, 20, new_invalid_dec::<DefaultRateDecoder<N>>());
h!(reset_invalid_high_enc, 20, reset_invalid_enc::<HighRateEncoder<N>>(2, 1));
h!(reset_invalid_low_enc, 20, reset_invalid_enc::<LowRateEncoder<N>>(1, 2));
h!(reset_invalid_high_dec, 20, reset_invalid_dec::<HighRateDecoder<N>>(2, 1));
h!(reset_invalid_low_dec, 20, reset_invalid_dec::<LowRateDecoder<N>>(1, 2));

h!(rs_dec_index_calls_2_1, 20, rs_dec_index_calls(2, 1));
h!(rs_dec_index_calls_1_2, 20, rs_dec_index_calls(1, 2));
h!(rs_enc_add_calls_2_1, 20, rs_enc_add_calls(2, 1));
h!(rs_reset_class_dec_c9, 20, reset_class_dec::<RsDec>(2, 1, 9, 1, 2));
h!(rs_reset_class_enc_c0, 20, reset_class_enc::<RsEnc>(2, 1, 0, 1, 2));
