//! Facade over Kani's API so that every harness also compiles natively and can
//! be REPLAYED on a solver counterexample: under Kani each symbolic input is
//! recorded in the global WITNESS array (read back from the CBMC trace);
//! natively the same calls pop the recorded values.
#[cfg(kani)]
pub const WCAP: usize = 512;
#[cfg(kani)]
pub static mut WITNESS: [u64; WCAP] = [0; WCAP];
#[cfg(kani)]
pub static mut WNEXT: usize = 0;

#[cfg(kani)]
#[inline(never)]
fn rec(v: u64) {
    unsafe {
        if WNEXT < WCAP {
            WITNESS[WNEXT] = v;
        }
        WNEXT += 1;
    }
}

#[cfg(not(kani))]
pub mod native {
    use std::cell::RefCell;
    thread_local! {
        pub static QUEUE: RefCell<(Vec<u64>, usize)> = RefCell::new((Vec::new(), 0));
    }
    pub fn load(v: Vec<u64>) {
        QUEUE.with(|q| *q.borrow_mut() = (v, 0));
    }
    pub fn next() -> u64 {
        QUEUE.with(|q| {
            let mut q = q.borrow_mut();
            let i = q.1;
            q.1 += 1;
            // beyond the recorded witness: unconstrained in the counterexample
            q.0.get(i).copied().unwrap_or(0)
        })
    }
}

pub trait Sym: Sized {
    fn sym() -> Self;
}

macro_rules! sym_int {
    ($($t:ty),*) => {$(
        impl Sym for $t {
            #[inline(never)]
            fn sym() -> $t {
                #[cfg(kani)]
                {
                    let v: $t = kani::any();
                    rec(v as u64);
                    v
                }
                #[cfg(not(kani))]
                {
                    native::next() as $t
                }
            }
        }
    )*};
}
sym_int!(u8, u16, u32, u64, usize);

impl Sym for bool {
    fn sym() -> bool {
        let v: u8 = u8::sym();
        assume(v <= 1);
        v == 1
    }
}

impl<const N: usize> Sym for [u8; N] {
    fn sym() -> [u8; N] {
        let mut a = [0u8; N];
        let mut i = 0;
        while i < N {
            a[i] = u8::sym();
            i += 1;
        }
        a
    }
}

pub fn any<T: Sym>() -> T {
    T::sym()
}

pub fn assume(c: bool) {
    #[cfg(kani)]
    kani::assume(c);
    #[cfg(not(kani))]
    if !c {
        println!("REPLAY: assumption violated (witness does not satisfy the harness preconditions)");
        std::process::exit(3);
    }
}

#[macro_export]
macro_rules! kcover {
    ($($t:tt)*) => {
        #[cfg(kani)]
        kani::cover!($($t)*);
    };
}
