//! Kani stubs (each use is listed in the evidence of the harness).
//!
//! `spec_fill`: `[T]::fill` for slices longer than 64 elements is replaced by
//! "first 64 elements written, the rest recorded in a ghost range"; the only
//! reader of such a range in the crate under these harnesses is the
//! `eval_poly` contract of the model engines, which consults the ghost (see
//! model.rs). Reason: the low-rate decoder marks ~65500 erasure positions with
//! one `fill(1)`; CBMC unwinds that loop at < 2 iterations/s.
pub const EXACT: usize = 64;

pub static mut GHOST_FILL_START: usize = 0; // address of first ghost element
pub static mut GHOST_FILL_END: usize = 0; // address one past the last
pub static mut GHOST_FILL_VALUE: u16 = 0;

pub trait FillLike<T> {
    fn do_fill(&mut self, v: T);
}

impl<T: Clone> FillLike<T> for [T] {
    fn do_fill(&mut self, v: T) {
        let n = self.len();
        let mut i = 0;
        while i < n && i < EXACT {
            self[i] = v.clone();
            i += 1;
        }
        if n > EXACT {
            // only u16 slices are ever that long in the crate (erasure marks)
            assert!(core::mem::size_of::<T>() == 2, "spec table not supplied: long fill of a non-u16 slice");
            unsafe {
                GHOST_FILL_START = self.as_ptr() as usize + 2 * EXACT;
                GHOST_FILL_END = self.as_ptr() as usize + 2 * n;
                GHOST_FILL_VALUE = *(&v as *const T as *const u16);
            }
        }
    }
}

pub fn stub_spec_fill<S: ?Sized + FillLike<T>, T>(s: &mut S, v: T) {
    s.do_fill(v);
}

/// value of `arr[j]` taking a ghost fill into account
pub fn ghost_read(arr: &[u16; 65536], j: usize) -> u16 {
    #[cfg(kani)]
    unsafe {
        let a = &arr[j] as *const u16 as usize;
        if a >= GHOST_FILL_START && a < GHOST_FILL_END {
            return GHOST_FILL_VALUE;
        }
    }
    arr[j]
}
