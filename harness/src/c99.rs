use crate::model::*;
use crate::stubs::*;
use crate::h;
use reed_solomon_simd::rate::*;
h!(t_full_high_3_2, 66, crate::c01::dec_full::<HighRateDecoder<SpecEngine>, 3, 2>(0b100, 0b11, &crate::gen::gmat::G_HIGH_3_2));
h!(t_basis_high_3_2, 66, crate::c01::dec_basis::<HighRateDecoder<SpecEngine>, 3, 2>(0b100, 0b11, 1, &crate::gen::gmat::G_HIGH_3_2));
h!(t_full_high_4_4, 66, crate::c01::dec_full::<HighRateDecoder<SpecEngine>, 4, 4>(0, 0b1111, &crate::gen::gmat::G_HIGH_4_4));
#[cfg_attr(kani, kani::proof)]
#[cfg_attr(kani, kani::unwind(66))]
#[cfg_attr(kani, kani::stub(core::slice::specialize::SpecFill::spec_fill, stub_spec_fill))]
pub fn t_full_low_2_3() {
    crate::c01::dec_full::<LowRateDecoder<SpecEngine>, 2, 3>(0b01, 0b100, &crate::gen::gmat::G_LOW_2_3)
}
