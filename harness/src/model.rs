//! Harness-side `Engine` implementations (models). Each is listed in the
//! evidence of the checks that use it.
use crate::k;
use crate::stubs::ghost_read;
use reed_solomon_simd::engine::{Engine, GfElement, ShardsRefMut, GF_ORDER};

// ======================================================================
// NullEngine: no arithmetic at all (control-flow / bookkeeping properties).

#[derive(Clone, Copy)]
pub struct NullEngine;

impl Engine for NullEngine {
    fn fft(&self, _d: &mut ShardsRefMut, _p: usize, _s: usize, _t: usize, _k: usize) {}
    fn ifft(&self, _d: &mut ShardsRefMut, _p: usize, _s: usize, _t: usize, _k: usize) {}
    fn mul(&self, _x: &mut [[u8; 64]], _log_m: GfElement) {}
    fn eval_poly(_e: &mut [GfElement; GF_ORDER], _t: usize) {}
}

// ======================================================================
// Engine-call preconditions shared by Probe and SpecEngine (from the trait
// documentation and the table sizes): size = 2^n, truncated_size <= size,
// the chunk lies inside the buffer, skew indexes stay inside the table.

pub fn check_call(data: &ShardsRefMut, pos: usize, size: usize, trunc: usize, delta: usize) {
    assert!(size.is_power_of_two(), "engine call: size is not a power of two");
    assert!(trunc <= size, "engine call: truncated_size > size");
    assert!(pos + size <= data.len(), "engine call: chunk outside the working space");
    assert!(delta + size <= 65536, "engine call: skew_delta + size beyond the skew table");
}

// ======================================================================
// Probe: records every engine call.

pub const OP_FFT: u8 = 1;
pub const OP_IFFT: u8 = 2;
pub const OP_MUL: u8 = 3;
pub const OP_EVAL: u8 = 4;
pub const TRACE_CAP: usize = 48;

#[derive(Clone, Copy, PartialEq, Eq, Debug)]
pub struct Call {
    pub op: u8,
    pub pos: usize,
    pub size: usize,
    pub trunc: usize,
    pub delta: usize,
}

pub static mut TRACE: [Call; TRACE_CAP] = [Call { op: 0, pos: 0, size: 0, trunc: 0, delta: 0 }; TRACE_CAP];
pub static mut TRACE_LEN: usize = 0;

pub fn trace_clear() {
    unsafe {
        TRACE_LEN = 0;
    }
}
pub fn trace_len() -> usize {
    unsafe { TRACE_LEN }
}
pub fn trace_get(i: usize) -> Call {
    unsafe { TRACE[i] }
}
fn trace_push(c: Call) {
    unsafe {
        assert!(TRACE_LEN < TRACE_CAP, "spec table not supplied: probe trace capacity");
        TRACE[TRACE_LEN] = c;
        TRACE_LEN += 1;
    }
}

#[derive(Clone, Copy)]
pub struct Probe;

impl Engine for Probe {
    fn fft(&self, d: &mut ShardsRefMut, pos: usize, size: usize, trunc: usize, delta: usize) {
        check_call(d, pos, size, trunc, delta);
        trace_push(Call { op: OP_FFT, pos, size, trunc, delta });
    }
    fn ifft(&self, d: &mut ShardsRefMut, pos: usize, size: usize, trunc: usize, delta: usize) {
        check_call(d, pos, size, trunc, delta);
        trace_push(Call { op: OP_IFFT, pos, size, trunc, delta });
    }
    fn mul(&self, x: &mut [[u8; 64]], log_m: GfElement) {
        trace_push(Call { op: OP_MUL, pos: x.as_ptr() as usize, size: x.len(), trunc: log_m as usize, delta: 0 });
    }
    fn eval_poly(_e: &mut [GfElement; GF_ORDER], t: usize) {
        assert!(t <= GF_ORDER);
        trace_push(Call { op: OP_EVAL, pos: 0, size: 0, trunc: t, delta: 0 });
    }
}

// ======================================================================
// SpecEngine: the executable engine CONTRACT (oracle constants only).

/// number of live 16-bit symbol lanes per 64-byte block (1..=32); shards of
/// 2*lanes bytes. Set (concretely) by the harness before use.
pub static mut SPEC_LANES: usize = 1;

pub fn set_lanes(n: usize) {
    unsafe {
        SPEC_LANES = n;
    }
}
/// shards of `sb` bytes: 32 symbols per full 64-byte block, t/2 in a final block of t bytes
pub fn set_shard_bytes(sb: usize) {
    set_lanes(sb / 2);
}
pub fn lanes() -> usize {
    unsafe { SPEC_LANES }
}
/// (number of blocks per shard, live lanes in block `b`)
pub fn blocks_per_shard() -> usize {
    (lanes() + 31) / 32
}
pub fn lanes_in_block(b: usize) -> usize {
    let n = lanes();
    if (b + 1) * 32 <= n {
        32
    } else {
        n - b * 32
    }
}

/// product of a constant (given as its 16 words c*2^b) with a symbol
#[inline(always)]
pub fn lin(words: &[u16; 16], x: u16) -> u16 {
    let mut r = 0u16;
    let mut b = 0;
    while b < 16 {
        r ^= words[b] & 0u16.wrapping_sub((x >> b) & 1);
        b += 1;
    }
    r
}

#[inline(always)]
pub fn get_sym(block: &[u8; 64], lane: usize) -> u16 {
    block[lane] as u16 | (block[32 + lane] as u16) << 8
}
#[inline(always)]
pub fn set_sym(block: &mut [u8; 64], lane: usize, v: u16) {
    block[lane] = v as u8;
    block[32 + lane] = (v >> 8) as u8;
}

pub const MAX_SIZE: usize = 16;

#[derive(Clone, Copy)]
pub struct SpecEngine;

impl SpecEngine {
    fn transform(d: &mut ShardsRefMut, pos: usize, size: usize, trunc: usize, words: &'static [[u16; 16]], is_fft: bool) {
        assert!(size <= MAX_SIZE, "spec table not supplied: transform size");
        let nb = blocks_per_shard();
        let mut blk = 0;
        while blk < nb {
            let nl = lanes_in_block(blk);
            let mut lane = 0;
            while lane < nl {
                let mut inp = [0u16; MAX_SIZE];
                let mut kk = 0;
                while kk < size {
                    assert!(d[pos + kk].len() == nb, "spec table not supplied: shard length differs from the declared one");
                    inp[kk] = get_sym(&d[pos + kk][blk], lane);
                    if !is_fft && kk >= trunc {
                        // ifft contract: everything beyond truncated_size must be zero
                        assert!(inp[kk] == 0, "ifft called with non-zero data beyond truncated_size");
                    }
                    kk += 1;
                }
                let mut i = 0;
                while i < size {
                    let v = if is_fft && i >= trunc {
                        // fft contract: outputs at or beyond truncated_size are garbage
                        k::any::<u16>()
                    } else {
                        let mut acc = 0u16;
                        let mut kk = 0;
                        while kk < size {
                            acc ^= lin(&words[i * size + kk], inp[kk]);
                            kk += 1;
                        }
                        acc
                    };
                    set_sym(&mut d[pos + i][blk], lane, v);
                    i += 1;
                }
                lane += 1;
            }
            blk += 1;
        }
    }
}

impl Engine for SpecEngine {
    fn fft(&self, d: &mut ShardsRefMut, pos: usize, size: usize, trunc: usize, delta: usize) {
        check_call(d, pos, size, trunc, delta);
        let words = crate::gen::spec::fft_words(size, delta).expect("spec table not supplied: fft matrix");
        Self::transform(d, pos, size, trunc, words, true);
    }
    fn ifft(&self, d: &mut ShardsRefMut, pos: usize, size: usize, trunc: usize, delta: usize) {
        check_call(d, pos, size, trunc, delta);
        let words = crate::gen::spec::ifft_words(size, delta).expect("spec table not supplied: ifft matrix");
        Self::transform(d, pos, size, trunc, words, false);
    }
    fn mul(&self, x: &mut [[u8; 64]], log_m: GfElement) {
        if log_m == 0 || log_m == 65535 {
            return; // g^0 = g^65535 = 1
        }
        let words = crate::gen::spec::mulc_words(log_m).expect("spec table not supplied: multiplication constant");
        let nb = blocks_per_shard();
        assert!(x.len() == nb, "spec table not supplied: shard length differs from the declared one");
        let mut blk = 0;
        while blk < nb {
            let nl = lanes_in_block(blk);
            let mut lane = 0;
            while lane < nl {
                let v = get_sym(&x[blk], lane);
                set_sym(&mut x[blk], lane, lin(words, v));
                lane += 1;
            }
            blk += 1;
        }
    }
    fn eval_poly(er: &mut [GfElement; GF_ORDER], trunc: usize) {
        spec_eval_poly(er, trunc);
    }
}

pub static mut TAIL_CHECK_SYMBOLIC: bool = false;
pub fn tail_check_symbolic() -> bool {
    unsafe { TAIL_CHECK_SYMBOLIC }
}
pub fn set_tail_check_symbolic(b: bool) {
    unsafe {
        TAIL_CHECK_SYMBOLIC = b;
    }
}

/// positions examined exactly by the eval_poly contract model
pub const EB: usize = 16;

/// eval_poly CONTRACT: for x < 32, er[x] := sum over marked j != x of
/// LOG[x ^ j] (mod 65535). Marks at or beyond EB=16 must be uniform (all 0, or
/// all 1 = the low-rate tail); checked through a nondeterministic index.
/// Precondition of the real function: every non-zero entry is below
/// `trunc`. Entries at or beyond 32 are left as they are (never read by the
/// decoders within the configuration bound).
pub fn spec_eval_poly(er: &mut [GfElement; GF_ORDER], trunc: usize) {
    assert!(trunc <= GF_ORDER);
    let tail = ghost_read(er, 65535);
    assert!(tail <= 1);
    if tail_check_symbolic() {
        let j: usize = k::any();
        k::assume(j >= EB && j < GF_ORDER);
        assert!(ghost_read(er, j) == tail, "spec table not supplied: erasure marks beyond position 32 are not uniform");
    } else {
        // cheap variant: fixed probe positions
        assert!(ghost_read(er, EB) == tail && ghost_read(er, 4097) == tail && ghost_read(er, 65534) == tail,
            "spec table not supplied: erasure marks beyond position 32 are not uniform");
    }
    if tail == 1 {
        assert!(trunc == GF_ORDER, "eval_poly: truncated_size does not cover the marked tail");
    }
    let mut m = [false; EB];
    let mut j = 0;
    while j < EB {
        let e = ghost_read(er, j);
        assert!(e <= 1);
        m[j] = e == 1;
        if m[j] {
            assert!(j < trunc, "eval_poly: truncated_size does not cover a marked position");
        }
        j += 1;
    }
    let mut x = 0;
    while x < EB {
        // sum without intermediate reductions (at most 32 * 65535 < 2^21)
        let mut acc: u32 = 0;
        let mut j = 0;
        while j < EB {
            if j != x {
                let take = if tail == 0 { m[j] } else { !m[j] };
                if take {
                    acc += crate::gen::spec::LOG32[x ^ j] as u32;
                }
            }
            j += 1;
        }
        let pos = acc % 65535;
        er[x] = if tail == 0 { pos as u16 } else { ((65535 - pos) % 65535) as u16 };
        x += 1;
    }
}
