//! Harness-side `Engine` implementations (models). Each is listed in the
//! evidence of the checks that use it.
use reed_solomon_simd::engine::{Engine, GfElement, ShardsRefMut, GF_ORDER};

/// No arithmetic at all: for control-flow / bookkeeping properties whose
/// behaviour is data independent.
#[derive(Clone, Copy)]
pub struct NullEngine;

impl Engine for NullEngine {
    fn fft(&self, _d: &mut ShardsRefMut, _p: usize, _s: usize, _t: usize, _k: usize) {}
    fn ifft(&self, _d: &mut ShardsRefMut, _p: usize, _s: usize, _t: usize, _k: usize) {}
    fn mul(&self, _x: &mut [[u8; 64]], _log_m: GfElement) {}
    fn eval_poly(_e: &mut [GfElement; GF_ORDER], _t: usize) {}
}
