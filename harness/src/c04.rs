//! C04 — every even shard size works and symbol slots never interact.
//! (i) layout: the documented byte placement of `Shards::insert` and its
//!     inverse, for a nondeterministic symbol slot (all slots at once);
//! (ii) slot independence through the real rate layer over the engine
//!     contract: slot q of every output is G*x of slot q of the inputs while
//!     every other slot of every shard holds arbitrary junk;
//! lane-locality of the real engines' primitives is C15 (all 32 lanes of a
//! block are checked independently) and C03.
use crate::c02::sym_of;
use crate::codec::*;
use crate::model::*;
use crate::{k, kcover};
use reed_solomon_simd::rate::*;

/// where the documentation puts symbol `q` of a shard of `sb` bytes:
/// (index of low byte, index of high byte) in the shard, (block, lane) in the work space
pub fn placement(sb: usize, q: usize) -> (usize, usize, usize, usize) {
    let full = sb / 64;
    let t = sb % 64;
    let blk = q / 32;
    let lane = q % 32;
    if blk < full {
        (64 * blk + lane, 64 * blk + 32 + lane, blk, lane)
    } else {
        (64 * full + lane, 64 * full + t / 2 + lane, blk, lane)
    }
}

fn sym_shard(sb: usize) -> Vec<u8> {
    let mut v = Vec::with_capacity(sb);
    let mut i = 0;
    while i < sb {
        v.push(k::any::<u8>());
        i += 1;
    }
    v
}

/// (i) encoder side: insert, documented placement, and encode over the null
/// engine at (1,1) returns the shard unchanged with exactly `sb` bytes
pub fn layout_enc<E: Enc + EncState>(sb: usize) {
    let shard = sym_shard(sb);
    let mut e = E::mk(1, 1, sb).unwrap();
    e.add(&shard).unwrap();
    let q: usize = k::any();
    k::assume(q < sb / 2);
    let (lo, hi, blk, lane) = placement(sb, q);
    {
        let (pb, pbyte) = probe_pos();
        let _ = (pb, pbyte);
    }
    // read the work space through the engine-independent view: shard 0 occupies blocks 0..len64
    let out = e.enc();
    let res = out.unwrap();
    let rec = res.recovery(0).unwrap();
    assert!(rec.len() == sb, "recovery shard has the wrong size");
    assert!(rec[lo] == shard[lo] && rec[hi] == shard[hi], "insert / undo_last_chunk_encoding are not inverse");
    assert!(res.recovery(1).is_none());
    let _ = (blk, lane);
    kcover!(q == sb / 2 - 1);
}

/// (i) placement inside the work space: an engine that only LOOKS at the
/// work space during ifft (the first engine call) records symbol q of shard 0
pub static mut SEEN_SYMBOL: u16 = 0;
pub static mut SEEN_BLOCKS: usize = 0;
pub static mut LOOK_BLOCK: usize = 0;
pub static mut LOOK_LANE: usize = 0;

#[derive(Clone, Copy)]
pub struct LookEngine;
impl reed_solomon_simd::engine::Engine for LookEngine {
    fn fft(&self, _d: &mut reed_solomon_simd::engine::ShardsRefMut, _p: usize, _s: usize, _t: usize, _k: usize) {}
    fn ifft(&self, d: &mut reed_solomon_simd::engine::ShardsRefMut, _p: usize, _s: usize, _t: usize, _k: usize) {
        unsafe {
            SEEN_BLOCKS = d[0].len();
            SEEN_SYMBOL = get_sym(&d[0][LOOK_BLOCK], LOOK_LANE);
        }
    }
    fn mul(&self, _x: &mut [[u8; 64]], _m: u16) {}
    fn eval_poly(_e: &mut [u16; 65536], _t: usize) {}
}
impl MkEngine for LookEngine {
    fn mk_engine() -> Self {
        LookEngine
    }
}

pub fn layout_work<E: Enc>(sb: usize, q: usize) {
    let shard = sym_shard(sb);
    let (lo, hi, blk, lane) = placement(sb, q);
    unsafe {
        LOOK_BLOCK = blk;
        LOOK_LANE = lane;
    }
    let mut e = E::mk(1, 1, sb).unwrap();
    e.add(&shard).unwrap();
    let out = e.enc();
    assert!(out.is_ok());
    unsafe {
        assert!(SEEN_BLOCKS == (sb + 63) / 64, "work shards do not have ceil(size/64) blocks");
        assert!(SEEN_SYMBOL == (shard[lo] as u16 | (shard[hi] as u16) << 8), "symbol is not where the documentation puts it (low bytes then high bytes)");
    }
}

/// (ii) slot independence: slot q of original p = x; every other slot of every
/// original = junk; then slot q of recovery j = G[j][p] * x
pub fn enc_slot<E: Enc>(kk: usize, r: usize, sb: usize, q: usize, p: usize, g: &'static [[u16; 16]]) {
    set_shard_bytes(sb);
    let (lo, hi, _, _) = placement(sb, q);
    let x: u16 = k::any();
    let mut e = E::mk(kk, r, sb).unwrap();
    let mut i = 0;
    while i < kk {
        let mut s = sym_shard(sb);
        let v = if i == p { x } else { 0 };
        s[lo] = v as u8;
        s[hi] = (v >> 8) as u8;
        e.add(&s).unwrap();
        i += 1;
    }
    let out = e.enc();
    let res = out.unwrap();
    let mut j = 0;
    while j < r {
        let rec = res.recovery(j).unwrap();
        assert!(rec.len() == sb, "recovery shard has the wrong size");
        let got = rec[lo] as u16 | (rec[hi] as u16) << 8;
        assert!(got == lin(&g[j * kk + p], x), "a symbol slot of the output depends on other slots of the input");
        j += 1;
    }
}

/// (ii) decoder: slot q carries the code word of x at original p, every other
/// slot of every given shard is junk; the restored shards have `sb` bytes and
/// slot q of each equals the original data
pub fn dec_slot<D: Dec, const K: usize, const R: usize>(sb: usize, q: usize, om: u32, rm: u32, p: usize, g: &'static [[u16; 16]]) {
    set_shard_bytes(sb);
    let (lo, hi, _, _) = placement(sb, q);
    let x: u16 = k::any();
    let mut d = D::mk(K, R, sb).unwrap();
    let mut i = 0;
    while i < K {
        if om >> i & 1 == 1 {
            let mut s = sym_shard(sb);
            let v = if i == p { x } else { 0 };
            s[lo] = v as u8;
            s[hi] = (v >> 8) as u8;
            d.add_o(i, &s).unwrap();
        }
        i += 1;
    }
    let mut j = 0;
    while j < R {
        if rm >> j & 1 == 1 {
            let mut s = sym_shard(sb);
            let v = lin(&g[j * K + p], x);
            s[lo] = v as u8;
            s[hi] = (v >> 8) as u8;
            d.add_r(j, &s).unwrap();
        }
        j += 1;
    }
    let out = d.dec();
    let res = out.unwrap();
    let mut i = 0;
    while i < K {
        if om >> i & 1 == 0 {
            let s = res.restored_original(i).unwrap();
            assert!(s.len() == sb, "restored shard has the wrong size");
            let got = s[lo] as u16 | (s[hi] as u16) << 8;
            assert!(got == if i == p { x } else { 0 }, "a symbol slot of the restored data depends on other slots");
        }
        i += 1;
    }
}

/// (i') insert / undo over a RANGE of shards (third-round seed `C04c`: an unrolled undo loop
/// that is only wrong from the 4th shard of the range on). `FanEngine::fft` copies the first
/// shard of the transformed range onto the others and does nothing else, so with one
/// original every recovery shard must come back as exactly the original shard, whatever
/// its index: undo_last_chunk_encoding must treat every shard of its range alike.
#[derive(Clone, Copy)]
pub struct FanEngine;
impl reed_solomon_simd::engine::Engine for FanEngine {
    fn fft(&self, d: &mut reed_solomon_simd::engine::ShardsRefMut, pos: usize, size: usize, _t: usize, _k: usize) {
        let nb = d[pos].len();
        let mut i = 1;
        while i < size {
            let mut b = 0;
            while b < nb {
                let t = d[pos][b];
                d[pos + i][b] = t;
                b += 1;
            }
            i += 1;
        }
    }
    fn ifft(&self, _d: &mut reed_solomon_simd::engine::ShardsRefMut, _p: usize, _s: usize, _t: usize, _k: usize) {}
    fn mul(&self, _x: &mut [[u8; 64]], _m: u16) {}
    fn eval_poly(_e: &mut [u16; 65536], _t: usize) {}
}
impl MkEngine for FanEngine {
    fn mk_engine() -> Self {
        FanEngine
    }
}

pub fn layout_enc_range<E: Enc>(r: usize, sb: usize) {
    let shard = sym_shard(sb);
    let mut e = E::mk(1, r, sb).unwrap();
    e.add(&shard).unwrap();
    let q: usize = k::any();
    k::assume(q < sb / 2);
    let (lo, hi, _, _) = placement(sb, q);
    let out = e.enc();
    let res = out.unwrap();
    let mut j = 0;
    while j < r {
        let rec = res.recovery(j).unwrap();
        assert!(rec.len() == sb, "recovery shard has the wrong size");
        assert!(rec[lo] == shard[lo] && rec[hi] == shard[hi], "undo_last_chunk_encoding does not invert insert for every shard of its range");
        j += 1;
    }
    assert!(res.recovery(r).is_none());
    kcover!(q == sb / 2 - 1);
}
