//! C09 — the default codec is the rate fixed by the selection rule; API
//! layers agree. Complete rounds on DefaultRate codecs do not fit CBMC (the
//! state lives in an enum payload, which defeats constant propagation:
//! > 15 min for one (2,1) round), so the property is decided as
//!  (a) the rule, for all 2^128 pairs;
//!  (b) new/reset build exactly the state the dedicated codec of the rule's
//!      rate builds (complete internal state through the hook views);
//!  (c) every DefaultRate method delegates: same Results and same state as the
//!      dedicated codec on add calls (unbounded indexes), error paths of
//!      encode/decode and the nothing-to-restore path.
//! The round itself is then the dedicated codec's (C01/C02).
use crate::codec::*;
use crate::model::NullEngine;
use crate::{k, kcover};
use reed_solomon_simd::rate::*;
use reed_solomon_simd::verif_hooks::use_high_rate;
use reed_solomon_simd::Error;

type N = NullEngine;

/// the selection rule as stated in the property
pub fn rule(o: usize, r: usize) -> bool {
    let (a, b) = (o.next_power_of_two(), r.next_power_of_two());
    a > b || (a == b && o <= r)
}

pub fn rule_all_pairs() {
    let (o, r): (usize, usize) = (k::any(), k::any());
    if envelope(o, r, 0) {
        assert!(use_high_rate(o, r) == Ok(rule(o, r)), "use_high_rate differs from the documented rule");
        // and the chosen dedicated codec supports the pair
        assert!(envelope(o, r, if rule(o, r) { 1 } else { 2 }));
    } else {
        assert!(use_high_rate(o, r) == Err(Error::UnsupportedShardCount { original_count: o, recovery_count: r }));
    }
    kcover!(envelope(o, r, 0) && rule(o, r) && o < r);
    kcover!(envelope(o, r, 0) && !rule(o, r) && o > r);
    kcover!(envelope(o, r, 0) && o.next_power_of_two() == r.next_power_of_two() && o != r);
}

pub fn default_new_enc(kk: usize, r: usize, sb: usize) {
    set_snap_blocks(enc_blocks(kk, r) * ((sb + 63) / 64));
    let d = DefaultRateEncoder::<N>::mk(kk, r, sb).unwrap().snap();
    assert!(d.is_high == Some(rule(kk, r)), "DefaultRateEncoder::new picked the wrong rate");
    let ded = if rule(kk, r) { HighRateEncoder::<N>::mk(kk, r, sb).unwrap().snap() } else { LowRateEncoder::<N>::mk(kk, r, sb).unwrap().snap() };
    assert!(d.same(&ded, false), "DefaultRateEncoder::new built a different state than the dedicated encoder");
}
pub fn default_new_dec(kk: usize, r: usize, sb: usize) {
    set_snap_blocks(dec_blocks(kk, r) * ((sb + 63) / 64));
    let d = DefaultRateDecoder::<N>::mk(kk, r, sb).unwrap().snap();
    assert!(d.is_high == Some(rule(kk, r)), "DefaultRateDecoder::new picked the wrong rate");
    let ded = if rule(kk, r) { HighRateDecoder::<N>::mk(kk, r, sb).unwrap().snap() } else { LowRateDecoder::<N>::mk(kk, r, sb).unwrap().snap() };
    assert!(d.same(&ded, false), "DefaultRateDecoder::new built a different state than the dedicated decoder");
}

/// reset (k1,r1,s1) -> (k2,r2,s2) with one shard added in between: afterwards
/// the codec is exactly a freshly built dedicated codec of the rule's rate
/// (all of working memory may differ: stale contents are C05's business)
pub fn default_reset_enc(k1: usize, r1: usize, s1: usize, k2: usize, r2: usize, s2: usize) {
    let mut e = DefaultRateEncoder::<N>::mk(k1, r1, s1).unwrap();
    let s = vec![k::any::<u8>(); s1];
    e.add(&s).unwrap();
    e.rst(k2, r2, s2).unwrap();
    let d = e.snap();
    assert!(d.is_high == Some(rule(k2, r2)), "DefaultRateEncoder::reset picked the wrong rate");
    let ded = if rule(k2, r2) { HighRateEncoder::<N>::mk(k2, r2, s2).unwrap().snap() } else { LowRateEncoder::<N>::mk(k2, r2, s2).unwrap().snap() };
    let (a, b) = (d.view.unwrap(), ded.view.unwrap());
    assert!(a.original_count == b.original_count && a.recovery_count == b.recovery_count && a.shard_bytes == b.shard_bytes);
    assert!(a.original_received_count == 0);
    assert!(a.shards.shard_count == b.shards.shard_count && a.shards.shard_len_64 == b.shards.shard_len_64 && a.shards.data_len == b.shards.data_len);
}
pub fn default_reset_dec(k1: usize, r1: usize, s1: usize, k2: usize, r2: usize, s2: usize) {
    let mut e = DefaultRateDecoder::<N>::mk(k1, r1, s1).unwrap();
    let s = vec![k::any::<u8>(); s1];
    e.add_o(0, &s).unwrap();
    e.add_r(0, &s).unwrap();
    e.rst(k2, r2, s2).unwrap();
    let d = e.snap();
    assert!(d.is_high == Some(rule(k2, r2)), "DefaultRateDecoder::reset picked the wrong rate");
    let ded = if rule(k2, r2) { HighRateDecoder::<N>::mk(k2, r2, s2).unwrap().snap() } else { LowRateDecoder::<N>::mk(k2, r2, s2).unwrap().snap() };
    let (a, b) = (d.view.unwrap(), ded.view.unwrap());
    assert!(a.original_count == b.original_count && a.recovery_count == b.recovery_count && a.shard_bytes == b.shard_bytes);
    assert!(a.original_base_pos == b.original_base_pos && a.recovery_base_pos == b.recovery_base_pos);
    assert!(a.original_received_count == 0 && a.recovery_received_count == 0);
    assert!(a.shards.shard_count == b.shards.shard_count && a.shards.shard_len_64 == b.shards.shard_len_64 && a.shards.data_len == b.shards.data_len);
    let mut i = 0;
    while i < 16 {
        assert!(!d.received[i], "reset left a received bit set");
        i += 1;
    }
}

/// delegation of the decoder methods: twin = the dedicated decoder of the rule's rate
fn dec_blocks(kk: usize, r: usize) -> usize {
    (if rule(kk, r) { r.next_power_of_two() + kk } else { kk.next_power_of_two() + r }).next_power_of_two()
}
fn enc_blocks(kk: usize, r: usize) -> usize {
    if rule(kk, r) { kk.next_multiple_of(r.next_power_of_two()) } else { r.next_multiple_of(kk.next_power_of_two()) }
}

pub fn default_delegates_dec<T: Dec + DecState>(kk: usize, r: usize, len_a: usize) {
    set_snap_blocks(dec_blocks(kk, r));
    let mut d = DefaultRateDecoder::<N>::mk(kk, r, 2).unwrap();
    let mut t = T::mk(kk, r, 2).unwrap();
    let buf: [u8; 4] = k::any();
    let (i, j): (usize, usize) = (k::any(), k::any());
    // an original with unbounded index, a recovery shard with unbounded index and length `len_a`, a repeat of the first
    let (a1, a2) = (d.add_o(i, &buf[..2]), t.add_o(i, &buf[..2]));
    assert!(a1 == a2);
    let (b1, b2) = (d.add_r(j, &buf[..len_a]), t.add_r(j, &buf[..len_a]));
    assert!(b1 == b2);
    let (c1, c2) = (d.add_o(i, &buf[2..4]), t.add_o(i, &buf[2..4]));
    assert!(c1 == c2);
    assert!(d.snap().same(&t.snap(), false), "DefaultRateDecoder diverged from the dedicated decoder");
    kcover!(a1.is_ok());
    kcover!(a1.is_err());
}

/// decode on the error path (too few) and on the nothing-to-restore path
pub fn default_delegates_decode<T: Dec + DecState>(kk: usize, r: usize, complete: bool) {
    set_snap_blocks(dec_blocks(kk, r));
    let mut d = DefaultRateDecoder::<N>::mk(kk, r, 2).unwrap();
    let mut t = T::mk(kk, r, 2).unwrap();
    let s: [u8; 2] = k::any();
    let n = if complete { kk } else { kk - 1 };
    let mut i = 0;
    while i < n {
        d.add_o(i, &s).unwrap();
        t.add_o(i, &s).unwrap();
        i += 1;
    }
    {
        let (o1, o2) = (d.dec(), t.dec());
        match (o1, o2) {
            (Ok(a), Ok(b)) => {
                assert!(complete);
                assert!(a.restored_original(0).is_none() && b.restored_original(0).is_none());
                assert!(a.restored_original_iter().next().is_none());
            }
            (Err(a), Err(b)) => {
                assert!(!complete);
                assert!(a == b);
            }
            _ => panic!("DefaultRateDecoder::decode and the dedicated decoder disagree"),
        }
    }
    assert!(d.snap().same(&t.snap(), false));
}

pub fn default_delegates_enc<T: Enc + EncState>(kk: usize, r: usize, len_a: usize) {
    set_snap_blocks(enc_blocks(kk, r));
    let mut d = DefaultRateEncoder::<N>::mk(kk, r, 2).unwrap();
    let mut t = T::mk(kk, r, 2).unwrap();
    let buf: [u8; 4] = k::any();
    let (a1, a2) = (d.add(&buf[..2]), t.add(&buf[..2]));
    assert!(a1 == a2 && a1.is_ok());
    let (b1, b2) = (d.add(&buf[..len_a]), t.add(&buf[..len_a]));
    assert!(b1 == b2);
    // (encode on a DefaultRate codec, even on its error path, makes CBMC walk the whole encode
    // body with non-constant counts: out of memory; the error path of encode_begin is reached
    // through the dedicated codecs in C06)
    let (c1, c2) = (d.add(&buf[2..4]), t.add(&buf[2..4]));
    assert!(c1 == c2);
    assert!(d.snap().same(&t.snap(), false), "DefaultRateEncoder diverged from the dedicated encoder");
}

crate::h!(rule_all_pairs_h, 19, rule_all_pairs());
