//! C14 — the default engine runs only SIMD code the (masked) CPU reports and
//! picks the best; results identical under every subset. One harness per
//! subset of {AVX2, SSSE3}; the mask is installed through the hook, every
//! `#[target_feature]` entry point records its ISA in a trace.
use crate::c15::{blocks_eq, sym_blocks, RealEngine};
use crate::{k, kcover};
use reed_solomon_simd::engine::{Avx2, DefaultEngine, Engine, GfElement, NoSimd, ShardsRefMut, Ssse3, GF_ORDER};
use reed_solomon_simd::verif_hooks::{clear_isa_trace, isa_trace, set_feature_mask, ISA_AVX2, ISA_SSSE3};

pub static mut EVAL_MARK_CALLS: usize = 0;
pub static mut EVAL_MARK_PTR: usize = 0;
pub static mut EVAL_MARK_TRUNC: usize = 0;

/// marker replacing `utils::eval_poly` (the 65536-point transforms cannot be
/// executed by CBMC): records that it was reached and with which arguments
pub fn eval_poly_marker(erasures: &mut [GfElement; GF_ORDER], truncated_size: usize) {
    unsafe {
        EVAL_MARK_CALLS += 1;
        EVAL_MARK_PTR = erasures.as_ptr() as usize;
        EVAL_MARK_TRUNC = truncated_size;
    }
}

fn best(mask: u32) -> u32 {
    if mask & ISA_AVX2 != 0 {
        ISA_AVX2
    } else if mask & ISA_SSSE3 != 0 {
        ISA_SSSE3
    } else {
        0
    }
}

pub fn default_engine_under_mask(mask: u32) {
    set_feature_mask(mask);
    crate::gen::tables::install_providers();
    clear_isa_trace();
    let e = DefaultEngine::new();
    assert!(isa_trace() == 0, "constructing the engine executed SIMD code");
    let reference = NoSimd::real();

    // mul
    let mut x = sym_blocks(1);
    let mut y = x.clone();
    e.mul(&mut x, 4369);
    assert!(isa_trace() == best(mask), "mul did not run exactly the best reported ISA");
    reference.mul(&mut y, 4369);
    assert!(blocks_eq(&x[0], &y[0]), "mul result depends on the feature subset");

    // fft / ifft on a 2-shard buffer
    clear_isa_trace();
    let mut a = sym_blocks(2);
    let mut b = a.clone();
    {
        let mut d = ShardsRefMut::new(2, 1, a.as_mut_slice());
        e.fft(&mut d, 0, 2, 2, 2);
    }
    assert!(isa_trace() == best(mask), "fft did not run exactly the best reported ISA");
    clear_isa_trace();
    {
        let mut d = ShardsRefMut::new(2, 1, a.as_mut_slice());
        e.ifft(&mut d, 0, 2, 2, 4);
    }
    assert!(isa_trace() == best(mask), "ifft did not run exactly the best reported ISA");
    {
        let mut d = ShardsRefMut::new(2, 1, b.as_mut_slice());
        reference.fft(&mut d, 0, 2, 2, 2);
        reference.ifft(&mut d, 0, 2, 2, 4);
    }
    assert!(blocks_eq(&a[0], &b[0]) && blocks_eq(&a[1], &b[1]), "fft/ifft result depends on the feature subset");

    // eval_poly (the decoder's polynomial evaluation)
    clear_isa_trace();
    let mut er: Box<[GfElement; GF_ORDER]> = Box::new([0; GF_ORDER]);
    let t: usize = k::any();
    k::assume(t <= GF_ORDER);
    let ptr = er.as_ptr() as usize;
    DefaultEngine::eval_poly(&mut er, t);
    assert!(isa_trace() == best(mask), "eval_poly did not run exactly the best reported ISA");
    unsafe {
        assert!(EVAL_MARK_CALLS == 1 && EVAL_MARK_PTR == ptr && EVAL_MARK_TRUNC == t, "eval_poly did not reach utils::eval_poly with unchanged arguments");
    }
}

/// every engine's eval_poly reaches utils::eval_poly exactly once with
/// unchanged arguments (so all engines evaluate the same polynomial)
pub fn eval_poly_delegation() {
    let t: usize = k::any();
    k::assume(t <= GF_ORDER);
    let mut er: Box<[GfElement; GF_ORDER]> = Box::new([0; GF_ORDER]);
    let ptr = er.as_ptr() as usize;
    clear_isa_trace();
    Avx2::eval_poly(&mut er, t);
    assert!(isa_trace() == ISA_AVX2);
    clear_isa_trace();
    Ssse3::eval_poly(&mut er, t);
    assert!(isa_trace() == ISA_SSSE3);
    clear_isa_trace();
    NoSimd::eval_poly(&mut er, t);
    reed_solomon_simd::engine::Naive::eval_poly(&mut er, t);
    assert!(isa_trace() == 0);
    unsafe {
        assert!(EVAL_MARK_CALLS == 4 && EVAL_MARK_PTR == ptr && EVAL_MARK_TRUNC == t);
    }
}

macro_rules! h14 {
    ($name:ident, $body:expr) => {
        #[cfg_attr(kani, kani::proof)]
        #[cfg_attr(kani, kani::unwind(128))]
        #[cfg_attr(kani, kani::stub(std::arch::x86_64::_mm_shuffle_epi8, crate::c15::shuf::mm_shuffle_epi8))]
        #[cfg_attr(kani, kani::stub(std::arch::x86_64::_mm256_shuffle_epi8, crate::c15::shuf::mm256_shuffle_epi8))]
        #[cfg_attr(kani, kani::stub(reed_solomon_simd::engine::utils::eval_poly, crate::c14::eval_poly_marker))]
        pub fn $name() {
            $body
        }
    };
}
h14!(mask_none, default_engine_under_mask(0));
h14!(mask_ssse3, default_engine_under_mask(ISA_SSSE3));
h14!(mask_avx2, default_engine_under_mask(ISA_AVX2));
h14!(mask_avx2_ssse3, default_engine_under_mask(ISA_AVX2 | ISA_SSSE3));
h14!(eval_poly_delegation_h, eval_poly_delegation());
