//! Uniform view of the nine codec types so one generic harness body can be
//! instantiated for each (one harness per concrete instantiation).
use crate::model::NullEngine;
use reed_solomon_simd::engine::Engine;
use reed_solomon_simd::rate::*;
use reed_solomon_simd::{DecoderResult, EncoderResult, Error, ReedSolomonDecoder, ReedSolomonEncoder};

pub trait Enc: Sized {
    fn mk(k: usize, r: usize, sb: usize) -> Result<Self, Error>;
    fn add(&mut self, shard: &[u8]) -> Result<(), Error>;
    fn enc(&mut self) -> Result<EncoderResult, Error>;
    fn rst(&mut self, k: usize, r: usize, sb: usize) -> Result<(), Error>;
    fn sup(k: usize, r: usize) -> bool;
    /// 0 = default rule, 1 = high, 2 = low (envelope side)
    const SIDE: u8;
}

pub trait Dec: Sized {
    fn mk(k: usize, r: usize, sb: usize) -> Result<Self, Error>;
    fn add_o(&mut self, i: usize, shard: &[u8]) -> Result<(), Error>;
    fn add_r(&mut self, i: usize, shard: &[u8]) -> Result<(), Error>;
    fn dec(&mut self) -> Result<DecoderResult, Error>;
    fn rst(&mut self, k: usize, r: usize, sb: usize) -> Result<(), Error>;
    const SIDE: u8;
}

pub trait MkEngine: Engine + Sized {
    fn mk_engine() -> Self;
}
impl MkEngine for NullEngine {
    fn mk_engine() -> Self {
        NullEngine
    }
}

macro_rules! impl_rate {
    ($enc:ident, $dec:ident, $side:expr) => {
        impl<E: MkEngine> Enc for $enc<E> {
            fn mk(k: usize, r: usize, sb: usize) -> Result<Self, Error> {
                <Self as RateEncoder<E>>::new(k, r, sb, E::mk_engine(), None)
            }
            fn add(&mut self, shard: &[u8]) -> Result<(), Error> {
                self.add_original_shard(shard)
            }
            fn enc(&mut self) -> Result<EncoderResult, Error> {
                self.encode()
            }
            fn rst(&mut self, k: usize, r: usize, sb: usize) -> Result<(), Error> {
                self.reset(k, r, sb)
            }
            fn sup(k: usize, r: usize) -> bool {
                <Self as RateEncoder<E>>::supports(k, r)
            }
            const SIDE: u8 = $side;
        }
        impl<E: MkEngine> Dec for $dec<E> {
            fn mk(k: usize, r: usize, sb: usize) -> Result<Self, Error> {
                <Self as RateDecoder<E>>::new(k, r, sb, E::mk_engine(), None)
            }
            fn add_o(&mut self, i: usize, shard: &[u8]) -> Result<(), Error> {
                self.add_original_shard(i, shard)
            }
            fn add_r(&mut self, i: usize, shard: &[u8]) -> Result<(), Error> {
                self.add_recovery_shard(i, shard)
            }
            fn dec(&mut self) -> Result<DecoderResult, Error> {
                self.decode()
            }
            fn rst(&mut self, k: usize, r: usize, sb: usize) -> Result<(), Error> {
                self.reset(k, r, sb)
            }
            const SIDE: u8 = $side;
        }
    };
}
impl_rate!(HighRateEncoder, HighRateDecoder, 1);
impl_rate!(LowRateEncoder, LowRateDecoder, 2);
impl_rate!(DefaultRateEncoder, DefaultRateDecoder, 0);

/// Newtypes for the top-level API (DefaultRate over DefaultEngine).
pub struct RsEnc(pub ReedSolomonEncoder);
pub struct RsDec(pub ReedSolomonDecoder);

impl Enc for RsEnc {
    fn mk(k: usize, r: usize, sb: usize) -> Result<Self, Error> {
        ReedSolomonEncoder::new(k, r, sb).map(RsEnc)
    }
    fn add(&mut self, shard: &[u8]) -> Result<(), Error> {
        self.0.add_original_shard(shard)
    }
    fn enc(&mut self) -> Result<EncoderResult, Error> {
        self.0.encode()
    }
    fn rst(&mut self, k: usize, r: usize, sb: usize) -> Result<(), Error> {
        self.0.reset(k, r, sb)
    }
    fn sup(k: usize, r: usize) -> bool {
        ReedSolomonEncoder::supports(k, r)
    }
    const SIDE: u8 = 0;
}
impl Dec for RsDec {
    fn mk(k: usize, r: usize, sb: usize) -> Result<Self, Error> {
        ReedSolomonDecoder::new(k, r, sb).map(RsDec)
    }
    fn add_o(&mut self, i: usize, shard: &[u8]) -> Result<(), Error> {
        self.0.add_original_shard(i, shard)
    }
    fn add_r(&mut self, i: usize, shard: &[u8]) -> Result<(), Error> {
        self.0.add_recovery_shard(i, shard)
    }
    fn dec(&mut self) -> Result<DecoderResult, Error> {
        self.0.decode()
    }
    fn rst(&mut self, k: usize, r: usize, sb: usize) -> Result<(), Error> {
        self.0.reset(k, r, sb)
    }
    const SIDE: u8 = 0;
}

/// README envelope (see c08.rs) - shared spec.
pub fn envelope(o: usize, r: usize, side: u8) -> bool {
    if o < 1 || r < 1 {
        return false;
    }
    let mut ok = false;
    let mut n = 0u32;
    while n <= 16 {
        let p = 1usize << n;
        let q = 65536usize - p;
        if side != 2 && r <= p && o <= q {
            ok = true;
        }
        if side != 1 && o <= p && r <= q {
            ok = true;
        }
        n += 1;
    }
    ok
}

pub fn validate_spec(o: usize, r: usize, s: usize, side: u8) -> Result<(), Error> {
    if !envelope(o, r, side) {
        Err(Error::UnsupportedShardCount { original_count: o, recovery_count: r })
    } else if s == 0 || s % 2 == 1 {
        Err(Error::InvalidShardSize { shard_bytes: s })
    } else {
        Ok(())
    }
}

/// An Err from new/reset/validate truthfully describes a violated precondition.
pub fn truthful_config_error(e: Error, o: usize, r: usize, s: usize, side: u8) -> bool {
    match e {
        Error::UnsupportedShardCount { original_count, recovery_count } => {
            original_count == o && recovery_count == r && !envelope(o, r, side)
        }
        Error::InvalidShardSize { shard_bytes } => shard_bytes == s && (s == 0 || s % 2 == 1),
        _ => false,
    }
}
