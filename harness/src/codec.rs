//! Uniform view of the nine codec types so one generic harness body can be
//! instantiated for each (one harness per concrete instantiation).
use crate::model::NullEngine;
use reed_solomon_simd::engine::Engine;
use reed_solomon_simd::rate::*;
use reed_solomon_simd::rate::{DecoderWork, EncoderWork};
use reed_solomon_simd::{DecoderResult, EncoderResult, Error, ReedSolomonDecoder, ReedSolomonEncoder};

pub trait Enc: Sized {
    fn mk(k: usize, r: usize, sb: usize) -> Result<Self, Error>;
    fn add(&mut self, shard: &[u8]) -> Result<(), Error>;
    fn enc(&mut self) -> Result<EncoderResult, Error>;
    fn rst(&mut self, k: usize, r: usize, sb: usize) -> Result<(), Error>;
    fn sup(k: usize, r: usize) -> bool;
    /// 0 = default rule, 1 = high, 2 = low (envelope side)
    const SIDE: u8;
}

pub trait Dec: Sized {
    fn mk(k: usize, r: usize, sb: usize) -> Result<Self, Error>;
    fn add_o(&mut self, i: usize, shard: &[u8]) -> Result<(), Error>;
    fn add_r(&mut self, i: usize, shard: &[u8]) -> Result<(), Error>;
    fn dec(&mut self) -> Result<DecoderResult, Error>;
    fn rst(&mut self, k: usize, r: usize, sb: usize) -> Result<(), Error>;
    const SIDE: u8;
}

pub trait MkEngine: Engine + Sized {
    fn mk_engine() -> Self;
}
impl MkEngine for NullEngine {
    fn mk_engine() -> Self {
        NullEngine
    }
}

macro_rules! impl_rate {
    ($enc:ident, $dec:ident, $side:expr) => {
        impl<E: MkEngine> Enc for $enc<E> {
            fn mk(k: usize, r: usize, sb: usize) -> Result<Self, Error> {
                <Self as RateEncoder<E>>::new(k, r, sb, E::mk_engine(), None)
            }
            fn add(&mut self, shard: &[u8]) -> Result<(), Error> {
                self.add_original_shard(shard)
            }
            fn enc(&mut self) -> Result<EncoderResult, Error> {
                self.encode()
            }
            fn rst(&mut self, k: usize, r: usize, sb: usize) -> Result<(), Error> {
                self.reset(k, r, sb)
            }
            fn sup(k: usize, r: usize) -> bool {
                <Self as RateEncoder<E>>::supports(k, r)
            }
            const SIDE: u8 = $side;
        }
        impl<E: MkEngine> Dec for $dec<E> {
            fn mk(k: usize, r: usize, sb: usize) -> Result<Self, Error> {
                <Self as RateDecoder<E>>::new(k, r, sb, E::mk_engine(), None)
            }
            fn add_o(&mut self, i: usize, shard: &[u8]) -> Result<(), Error> {
                self.add_original_shard(i, shard)
            }
            fn add_r(&mut self, i: usize, shard: &[u8]) -> Result<(), Error> {
                self.add_recovery_shard(i, shard)
            }
            fn dec(&mut self) -> Result<DecoderResult, Error> {
                self.decode()
            }
            fn rst(&mut self, k: usize, r: usize, sb: usize) -> Result<(), Error> {
                self.reset(k, r, sb)
            }
            const SIDE: u8 = $side;
        }
    };
}
impl_rate!(HighRateEncoder, HighRateDecoder, 1);
impl_rate!(LowRateEncoder, LowRateDecoder, 2);
impl_rate!(DefaultRateEncoder, DefaultRateDecoder, 0);

/// Newtypes for the top-level API (DefaultRate over DefaultEngine).
pub struct RsEnc(pub ReedSolomonEncoder);
pub struct RsDec(pub ReedSolomonDecoder);

impl Enc for RsEnc {
    fn mk(k: usize, r: usize, sb: usize) -> Result<Self, Error> {
        crate::c10::setup_default_engine();
        ReedSolomonEncoder::new(k, r, sb).map(RsEnc)
    }
    fn add(&mut self, shard: &[u8]) -> Result<(), Error> {
        self.0.add_original_shard(shard)
    }
    fn enc(&mut self) -> Result<EncoderResult, Error> {
        self.0.encode()
    }
    fn rst(&mut self, k: usize, r: usize, sb: usize) -> Result<(), Error> {
        self.0.reset(k, r, sb)
    }
    fn sup(k: usize, r: usize) -> bool {
        ReedSolomonEncoder::supports(k, r)
    }
    const SIDE: u8 = 0;
}
impl Dec for RsDec {
    fn mk(k: usize, r: usize, sb: usize) -> Result<Self, Error> {
        crate::c10::setup_default_engine();
        ReedSolomonDecoder::new(k, r, sb).map(RsDec)
    }
    fn add_o(&mut self, i: usize, shard: &[u8]) -> Result<(), Error> {
        self.0.add_original_shard(i, shard)
    }
    fn add_r(&mut self, i: usize, shard: &[u8]) -> Result<(), Error> {
        self.0.add_recovery_shard(i, shard)
    }
    fn dec(&mut self) -> Result<DecoderResult, Error> {
        self.0.decode()
    }
    fn rst(&mut self, k: usize, r: usize, sb: usize) -> Result<(), Error> {
        self.0.reset(k, r, sb)
    }
    const SIDE: u8 = 0;
}

/// README envelope (see c08.rs) - shared spec.
pub fn envelope(o: usize, r: usize, side: u8) -> bool {
    if o < 1 || r < 1 {
        return false;
    }
    let mut ok = false;
    let mut n = 0u32;
    while n <= 16 {
        let p = 1usize << n;
        let q = 65536usize - p;
        if side != 2 && r <= p && o <= q {
            ok = true;
        }
        if side != 1 && o <= p && r <= q {
            ok = true;
        }
        n += 1;
    }
    ok
}

pub fn validate_spec(o: usize, r: usize, s: usize, side: u8) -> Result<(), Error> {
    if !envelope(o, r, side) {
        Err(Error::UnsupportedShardCount { original_count: o, recovery_count: r })
    } else if s == 0 || s % 2 == 1 {
        Err(Error::InvalidShardSize { shard_bytes: s })
    } else {
        Ok(())
    }
}

/// An Err from new/reset/validate truthfully describes a violated precondition.
pub fn truthful_config_error(e: Error, o: usize, r: usize, s: usize, side: u8) -> bool {
    match e {
        Error::UnsupportedShardCount { original_count, recovery_count } => {
            original_count == o && recovery_count == r && !envelope(o, r, side)
        }
        Error::InvalidShardSize { shard_bytes } => shard_bytes == s && (s == 0 || s % 2 == 1),
        _ => false,
    }
}

// ----------------------------------------------------------------------
// state snapshots through the read-only hook views

use reed_solomon_simd::verif_hooks::{DecoderWorkView, EncoderWorkView};

/// byte-by-byte comparison with nested loops (a flat memcmp over the whole
/// working memory would need an unwinding bound of its size)
pub fn data_eq(a: &[[u8; 64]], b: &[[u8; 64]]) -> bool {
    // snapshots hold ONE pseudo block: [len lo, len hi, probe valid, probed byte]
    a.len() == 1 && b.len() == 1 && a[0][0] == b[0][0] && a[0][1] == b[0][1] && a[0][2] == b[0][2] && a[0][3] == b[0][3]
}

fn sv_eq(a: &reed_solomon_simd::verif_hooks::ShardsView, b: &reed_solomon_simd::verif_hooks::ShardsView, ptrs: bool) -> bool {
    a.shard_count == b.shard_count && a.shard_len_64 == b.shard_len_64 && a.data_len == b.data_len
        && (!ptrs || (a.data_ptr == b.data_ptr && a.data_capacity == b.data_capacity))
}

impl EncSnap {
    /// `ptrs`: also compare buffer addresses and capacities (same object) or not (twin objects)
    pub fn same(&self, o: &Self, ptrs: bool) -> bool {
        let views = match (&self.view, &o.view) {
            (Some(a), Some(b)) => {
                a.original_count == b.original_count && a.recovery_count == b.recovery_count && a.shard_bytes == b.shard_bytes
                    && a.original_received_count == b.original_received_count && sv_eq(&a.shards, &b.shards, ptrs)
            }
            (None, None) => true,
            _ => false,
        };
        self.present == o.present && views && self.is_high == o.is_high && data_eq(&self.data, &o.data)
    }
}
impl DecSnap {
    pub fn same(&self, o: &Self, ptrs: bool) -> bool {
        let views = match (&self.view, &o.view) {
            (Some(a), Some(b)) => {
                a.original_count == b.original_count && a.recovery_count == b.recovery_count && a.shard_bytes == b.shard_bytes
                    && a.original_base_pos == b.original_base_pos && a.recovery_base_pos == b.recovery_base_pos
                    && a.original_received_count == b.original_received_count && a.recovery_received_count == b.recovery_received_count
                    && a.received_len == b.received_len && (!ptrs || a.received_ptr == b.received_ptr) && sv_eq(&a.shards, &b.shards, ptrs)
            }
            (None, None) => true,
            _ => false,
        };
        let mut rec = true;
        let mut i = 0;
        while i < 16 {
            if self.received[i] != o.received[i] {
                rec = false;
            }
            i += 1;
        }
        self.present == o.present && views && self.is_high == o.is_high && rec && data_eq(&self.data, &o.data)
    }
}

#[derive(Debug, Clone)]
pub struct EncSnap {
    pub present: bool,
    pub view: Option<EncoderWorkView>,
    pub is_high: Option<bool>,
    pub data: Vec<[u8; 64]>,
}

#[derive(Debug, Clone)]
pub struct DecSnap {
    pub present: bool,
    pub view: Option<DecoderWorkView>,
    pub is_high: Option<bool>,
    pub received: [bool; 16],
    pub data: Vec<[u8; 64]>,
}

pub trait EncState {
    fn snap(&self) -> EncSnap;
}
pub trait DecState {
    fn snap(&self) -> DecSnap;
}

/// For codecs whose state lives in an enum payload (DefaultRate*), CBMC does
/// not see the buffer length as a constant; the harness then declares the
/// expected number of blocks and the copy loops over exactly that many.
pub static mut SNAP_BLOCKS: usize = 0;
pub fn set_snap_blocks(n: usize) {
    unsafe {
        SNAP_BLOCKS = n;
    }
}

/// Working memory is compared through ONE byte at a nondeterministic
/// (block, byte) position chosen once per harness: the solver quantifies over
/// the position, so equality of that byte before/after is equality of every
/// byte - without copying the memory.
pub static mut PROBE: Option<(usize, usize)> = None;
pub fn probe_pos() -> (usize, usize) {
    unsafe {
        if PROBE.is_none() {
            let blk: usize = crate::k::any();
            let byte: usize = crate::k::any();
            crate::k::assume(blk < 64 && byte < 64);
            PROBE = Some((blk, byte));
        }
        PROBE.unwrap()
    }
}

fn copy_data(d: &[[u8; 64]], _fixed: bool) -> Vec<[u8; 64]> {
    // (len, probed byte) packed into one pseudo block
    let (blk, byte) = probe_pos();
    let mut v = [0u8; 64];
    let n = d.len();
    v[0] = n as u8;
    v[1] = (n >> 8) as u8;
    if blk < n {
        v[2] = 1;
        v[3] = d[blk][byte];
    }
    vec![v]
}

fn enc_snap(w: Option<&EncoderWork>, is_high: Option<bool>, fixed: bool) -> EncSnap {
    match w {
        Some(w) => EncSnap { present: true, view: Some(w.verif_view()), is_high, data: copy_data(w.verif_data(), fixed) },
        None => EncSnap { present: false, view: None, is_high, data: Vec::new() },
    }
}
fn dec_snap(w: Option<&DecoderWork>, is_high: Option<bool>, fixed: bool) -> DecSnap {
    match w {
        Some(w) => {
            let mut received = [false; 16];
            let mut i = 0;
            while i < 16 {
                received[i] = w.verif_received(i);
                i += 1;
            }
            DecSnap { present: true, view: Some(w.verif_view()), is_high, received, data: copy_data(w.verif_data(), fixed) }
        }
        None => DecSnap { present: false, view: None, is_high, received: [false; 16], data: Vec::new() },
    }
}

impl<E: Engine> EncState for HighRateEncoder<E> {
    fn snap(&self) -> EncSnap {
        enc_snap(Some(self.verif_work()), Some(true), false)
    }
}
impl<E: Engine> EncState for LowRateEncoder<E> {
    fn snap(&self) -> EncSnap {
        enc_snap(Some(self.verif_work()), Some(false), false)
    }
}
impl<E: Engine> EncState for DefaultRateEncoder<E> {
    fn snap(&self) -> EncSnap {
        enc_snap(self.verif_work(), self.verif_is_high(), true)
    }
}
impl<E: Engine> DecState for HighRateDecoder<E> {
    fn snap(&self) -> DecSnap {
        dec_snap(Some(self.verif_work()), Some(true), false)
    }
}
impl<E: Engine> DecState for LowRateDecoder<E> {
    fn snap(&self) -> DecSnap {
        dec_snap(Some(self.verif_work()), Some(false), false)
    }
}
impl<E: Engine> DecState for DefaultRateDecoder<E> {
    fn snap(&self) -> DecSnap {
        dec_snap(self.verif_work(), self.verif_is_high(), true)
    }
}
