//! C15 / C03 — the REAL engines' primitives against the engine contract
//! (oracle matrices) and against each other.
//!
//! Buffers are heap `Vec<[u8; 64]>` (stack arrays behind slice pointers were
//! measured to give spurious counterexamples under CBMC).
use crate::gen::tables::{EXP, LOG, MUL128, MUL16, SKEW};
use crate::model::{get_sym, lin, set_sym};
use crate::{k, kcover};
use reed_solomon_simd::engine::tables::{Mul128, Mul16, Multiply128lutT};
use reed_solomon_simd::engine::{Avx2, Engine, Naive, NoSimd, ShardsRefMut, Ssse3};
use reed_solomon_simd::verif_hooks::{SparseMode, SparseTable};

pub trait RealEngine: Engine + Sized {
    fn real() -> Self;
}
impl RealEngine for NoSimd {
    fn real() -> Self {
        NoSimd::verif_with_tables(&MUL16, &SKEW)
    }
}
impl RealEngine for Naive {
    fn real() -> Self {
        Naive::verif_with_tables(&EXP, &LOG, &SKEW)
    }
}
impl RealEngine for Ssse3 {
    fn real() -> Self {
        Ssse3::verif_with_tables(&MUL128, &SKEW)
    }
}
/// the Neon engine's source, ported textually onto emulated intrinsics
pub use crate::gen::neon_port::Neon as NeonPort;
impl RealEngine for NeonPort {
    fn real() -> Self {
        NeonPort::verif_with_tables(&MUL128, &SKEW)
    }
}
impl RealEngine for Avx2 {
    fn real() -> Self {
        Avx2::verif_with_tables(&MUL128, &SKEW)
    }
}

// ----------------------------------------------------------------------
// models of the two byte-shuffle instructions Kani cannot translate
// (validated natively against the real instructions: see selftest)

#[cfg(target_arch = "x86_64")]
pub mod shuf {
    use std::arch::x86_64::*;
    pub fn mm_shuffle_epi8(a: __m128i, b: __m128i) -> __m128i {
        let a: [u8; 16] = unsafe { core::mem::transmute(a) };
        let b: [u8; 16] = unsafe { core::mem::transmute(b) };
        let mut r = [0u8; 16];
        let mut i = 0;
        while i < 16 {
            r[i] = if b[i] & 0x80 != 0 { 0 } else { a[(b[i] & 15) as usize] };
            i += 1;
        }
        unsafe { core::mem::transmute(r) }
    }
    pub fn mm256_shuffle_epi8(a: __m256i, b: __m256i) -> __m256i {
        let a: [u8; 32] = unsafe { core::mem::transmute(a) };
        let b: [u8; 32] = unsafe { core::mem::transmute(b) };
        let mut r = [0u8; 32];
        let mut i = 0;
        while i < 32 {
            let base = i & 16;
            r[i] = if b[i] & 0x80 != 0 { 0 } else { a[base + (b[i] & 15) as usize] };
            i += 1;
        }
        unsafe { core::mem::transmute(r) }
    }
}

// ----------------------------------------------------------------------
// helpers

pub fn sym_blocks(n: usize) -> Vec<[u8; 64]> {
    let mut v = Vec::with_capacity(n);
    let mut i = 0;
    while i < n {
        let b: [u8; 64] = k::any();
        v.push(b);
        i += 1;
    }
    v
}
pub fn zero_blocks(n: usize) -> Vec<[u8; 64]> {
    let mut v = Vec::with_capacity(n);
    let mut i = 0;
    while i < n {
        v.push([0u8; 64]);
        i += 1;
    }
    v
}
pub fn blocks_eq(a: &[u8; 64], b: &[u8; 64]) -> bool {
    let mut ok = true;
    let mut i = 0;
    while i < 64 {
        if a[i] != b[i] {
            ok = false;
        }
        i += 1;
    }
    ok
}

fn run<E: Engine>(e: &E, is_fft: bool, data: &mut Vec<[u8; 64]>, pos: usize, size: usize, trunc: usize, delta: usize) {
    let n = data.len();
    let mut d = ShardsRefMut::new(n, 1, data.as_mut_slice());
    if is_fft {
        e.fft(&mut d, pos, size, trunc, delta);
    } else {
        e.ifft(&mut d, pos, size, trunc, delta);
    }
}

/// BASIS: for every input position p (looped, concrete) shard p is a fully
/// symbolic 64-byte block, the others zero => every output symbol (all 32
/// lanes) below the valid bound equals M[i][p] * x; guard shards around the
/// chunk are untouched. fft: outputs i < trunc for ANY p (also p >= trunc);
/// ifft: inputs p < trunc only (zero tail), all outputs.
pub fn prim_basis<E: RealEngine>(is_fft: bool, size: usize, trunc: usize, delta: usize, p: usize) {
    let e = E::real();
    let words = if is_fft { crate::gen::spec::fft_words(size, delta) } else { crate::gen::spec::ifft_words(size, delta) }.unwrap();
    let pos = 1;
    let n = size + 2;
    let mut data = zero_blocks(n);
    let g0: [u8; 64] = k::any();
    let g1: [u8; 64] = k::any();
    let x: [u8; 64] = k::any();
    data[0] = g0;
    data[n - 1] = g1;
    data[pos + p] = x;
    run(&e, is_fft, &mut data, pos, size, trunc, delta);
    let valid = if is_fft { trunc } else { size };
    let mut i = 0;
    while i < valid {
        let w = &words[i * size + p];
        let mut lane = 0;
        while lane < 32 {
            assert!(get_sym(&data[pos + i], lane) == lin(w, get_sym(&x, lane)), "engine output differs from the LCH-basis contract");
            lane += 1;
        }
        i += 1;
    }
    assert!(blocks_eq(&data[0], &g0) && blocks_eq(&data[n - 1], &g1), "the primitive changed a shard outside its range");
    kcover!(x[0] == 0xff && x[63] == 0xff);
}

/// BASIS on ONE symbolic lane (2 bytes) of shard p, everything else zero: the
/// affordable form for larger transforms (size 16, 32), where a fully symbolic
/// block does not fit. Lane-independence of the engine is decided at sizes <= 8.
pub fn prim_basis_lane<E: RealEngine>(is_fft: bool, size: usize, trunc: usize, delta: usize, p: usize, lane: usize) {
    let e = E::real();
    let words = if is_fft { crate::gen::spec::fft_words(size, delta) } else { crate::gen::spec::ifft_words(size, delta) }.unwrap();
    let mut data = zero_blocks(size);
    let x: u16 = k::any();
    set_sym(&mut data[p], lane, x);
    run(&e, is_fft, &mut data, 0, size, trunc, delta);
    let valid = if is_fft { trunc } else { size };
    let mut i = 0;
    while i < valid {
        assert!(get_sym(&data[i], lane) == lin(&words[i * size + p], x), "engine output differs from the LCH-basis contract");
        i += 1;
    }
    kcover!(x == 0xffff);
}

/// ADDITIVITY on fully symbolic buffers (valid outputs only)
pub fn prim_additive<E: RealEngine>(is_fft: bool, size: usize, trunc: usize, delta: usize) {
    let e = E::real();
    let mut a = sym_blocks(size);
    let mut b = sym_blocks(size);
    if !is_fft {
        // ifft contract: zero tail
        let mut i = trunc;
        while i < size {
            a[i] = [0; 64];
            b[i] = [0; 64];
            i += 1;
        }
    }
    let mut c = zero_blocks(size);
    let mut i = 0;
    while i < size {
        let mut j = 0;
        while j < 64 {
            c[i][j] = a[i][j] ^ b[i][j];
            j += 1;
        }
        i += 1;
    }
    run(&e, is_fft, &mut a, 0, size, trunc, delta);
    run(&e, is_fft, &mut b, 0, size, trunc, delta);
    run(&e, is_fft, &mut c, 0, size, trunc, delta);
    let valid = if is_fft { trunc } else { size };
    let mut i = 0;
    while i < valid {
        let mut j = 0;
        while j < 64 {
            assert!(a[i][j] ^ b[i][j] == c[i][j], "primitive is not additive");
            j += 1;
        }
        i += 1;
    }
}

/// MITER: engine E against NoSimd on identical fully symbolic buffers (all
/// bytes of all shards, incl. guards): identical bytes everywhere.
pub fn prim_miter<E: RealEngine>(is_fft: bool, size: usize, trunc: usize, delta: usize) {
    let e = E::real();
    let reference = NoSimd::real();
    let n = size + 2;
    let mut a = sym_blocks(n);
    let mut b = a.clone();
    run(&e, is_fft, &mut a, 1, size, trunc, delta);
    run(&reference, is_fft, &mut b, 1, size, trunc, delta);
    let mut i = 0;
    while i < n {
        assert!(blocks_eq(&a[i], &b[i]), "engine differs from NoSimd");
        i += 1;
    }
}

/// known answer vs bytes computed natively by the real crate
pub fn prim_kat<E: RealEngine>(is_fft: bool, size: usize, trunc: usize, delta: usize, input: &[u8], expect: &[u8]) {
    let e = E::real();
    let mut data = zero_blocks(size);
    let mut i = 0;
    while i < size {
        let mut j = 0;
        while j < 64 {
            data[i][j] = input[i * 64 + j];
            j += 1;
        }
        i += 1;
    }
    run(&e, is_fft, &mut data, 0, size, trunc, delta);
    let mut i = 0;
    while i < size {
        let mut j = 0;
        while j < 64 {
            assert!(data[i][j] == expect[i * 64 + j], "known answer mismatch");
            j += 1;
        }
        i += 1;
    }
}

// ----------------------------------------------------------------------
// mul: for an ARBITRARY row that is the nibble table of an arbitrary
// GF(2)-linear map T (16 symbolic words), every lane of every block becomes
// T(x). (That every real row is such a table for T = multiplication by g^m is
// the z3 obligation T2/T3 of C15.)

fn nibble(words: &[u16; 16], t: usize, i: usize) -> u16 {
    let mut r = 0;
    let mut b = 0;
    while b < 4 {
        if i >> b & 1 == 1 {
            r ^= words[4 * t + b];
        }
        b += 1;
    }
    r
}

pub fn arbitrary_mul16(words: &[u16; 16]) -> &'static Mul16 {
    let mut row = [[0u16; 16]; 4];
    let mut t = 0;
    while t < 4 {
        let mut i = 0;
        while i < 16 {
            row[t][i] = nibble(words, t, i);
            i += 1;
        }
        t += 1;
    }
    let rows: &'static [(u16, [[u16; 16]; 4])] = Box::leak(Box::new([(0u16, row)]));
    Box::leak(Box::new(SparseTable::new(rows, SparseMode::Wildcard)))
}

pub fn arbitrary_mul128(words: &[u16; 16]) -> &'static Mul128 {
    let mut lut = Multiply128lutT { lo: [0; 4], hi: [0; 4] };
    let mut t = 0;
    while t < 4 {
        let mut lo = [0u8; 16];
        let mut hi = [0u8; 16];
        let mut i = 0;
        while i < 16 {
            let v = nibble(words, t, i);
            lo[i] = v as u8;
            hi[i] = (v >> 8) as u8;
            i += 1;
        }
        lut.lo[t] = u128::from_le_bytes(lo);
        lut.hi[t] = u128::from_le_bytes(hi);
        t += 1;
    }
    let rows: &'static [(u16, Multiply128lutT)] = Box::leak(Box::new([(0u16, lut)]));
    Box::leak(Box::new(SparseTable::new(rows, SparseMode::Wildcard)))
}

pub fn sym_words() -> [u16; 16] {
    let mut w = [0u16; 16];
    let mut i = 0;
    while i < 16 {
        w[i] = k::any();
        i += 1;
    }
    w
}

pub fn mul_arbitrary_row<E: Engine>(e: &E, words: &[u16; 16], nblocks: usize) {
    let log_m: u16 = k::any();
    let mut x = sym_blocks(nblocks);
    let orig = x.clone();
    e.mul(&mut x, log_m);
    let mut bidx = 0;
    while bidx < nblocks {
        let mut lane = 0;
        while lane < 32 {
            assert!(get_sym(&x[bidx], lane) == lin(words, get_sym(&orig[bidx], lane)), "mul is not the lane-wise linear map of its table row");
            lane += 1;
        }
        bidx += 1;
    }
}

pub fn mul_nosimd(nblocks: usize) {
    let w = sym_words();
    let e = NoSimd::verif_with_tables(arbitrary_mul16(&w), &SKEW);
    mul_arbitrary_row(&e, &w, nblocks);
}
pub fn mul_ssse3(nblocks: usize) {
    let w = sym_words();
    let e = Ssse3::verif_with_tables(arbitrary_mul128(&w), &SKEW);
    mul_arbitrary_row(&e, &w, nblocks);
}
pub fn mul_avx2(nblocks: usize) {
    let w = sym_words();
    let e = Avx2::verif_with_tables(arbitrary_mul128(&w), &SKEW);
    mul_arbitrary_row(&e, &w, nblocks);
}
pub fn mul_neon(nblocks: usize) {
    let w = sym_words();
    let e = NeonPort::verif_with_tables(arbitrary_mul128(&w), &SKEW);
    mul_arbitrary_row(&e, &w, nblocks);
}
/// Naive: exp/log based, so instead of an arbitrary row: the supplied real
/// rows. One symbolic lane (the 65536-entry exp/log statics are read at
/// symbolic indexes).
pub fn mul_naive_vs_nosimd(log_m: u16) {
    let e = Naive::real();
    let reference = NoSimd::real();
    let v: u16 = k::any();
    let lane: usize = 5;
    let mut a = zero_blocks(1);
    set_sym(&mut a[0], lane, v);
    let mut b = a.clone();
    e.mul(&mut a, log_m);
    reference.mul(&mut b, log_m);
    assert!(blocks_eq(&a[0], &b[0]), "Naive::mul differs from NoSimd::mul");
}
