//! C15 (eval_poly clause, partial): the scalar helpers of the Walsh transform
//! equal their mod-65535 definitions for ALL inputs, including the 0/65535
//! double representation of zero. (The 65536-point loop schedule and the
//! end-to-end eval_poly contract are not decidable here: DESIGN 6/C15.)
use crate::{h, k, kcover};
use reed_solomon_simd::verif_hooks::{add_mod, fwht_2, fwht_4, sub_mod};

/// value modulo 65535 of a representation in 0..=65535
fn val(x: u16) -> u32 {
    (x as u32) % 65535
}

pub fn add_sub_mod_all_inputs() {
    let (x, y): (u16, u16) = (k::any(), k::any());
    assert!(val(add_mod(x, y)) == (val(x) + val(y)) % 65535, "add_mod is not addition modulo 65535");
    assert!(val(sub_mod(x, y)) == (val(x) + 65535 - val(y)) % 65535, "sub_mod is not subtraction modulo 65535");
    kcover!(x == 65535 && y == 65535);
    kcover!(x as u32 + y as u32 == 65535);
}

pub fn fwht_2_all_inputs() {
    let (a, b): (u16, u16) = (k::any(), k::any());
    let (s, d) = fwht_2(a, b);
    assert!(val(s) == (val(a) + val(b)) % 65535 && val(d) == (val(a) + 65535 - val(b)) % 65535, "fwht_2 is not (a+b, a-b) modulo 65535");
}

/// radix-4 butterfly on four symbolic entries at a concrete (offset, dist)
/// (a symbolic position in the 65536-entry array does not finish in 10 min)
pub fn fwht_4_at(offset: u16, dist: u16) {
    let mut data: Box<[u16; 65536]> = Box::new([0; 65536]);
    let v: [u16; 4] = [k::any(), k::any(), k::any(), k::any()];
    let idx = [offset as usize, (offset + dist) as usize, (offset + 2 * dist) as usize, (offset + 3 * dist) as usize];
    let mut i = 0;
    while i < 4 {
        data[idx[i]] = v[i];
        i += 1;
    }
    fwht_4(&mut data, offset, dist);
    let m = 65535u32;
    let (a, b, c, d) = (val(v[0]), val(v[1]), val(v[2]), val(v[3]));
    assert!(val(data[idx[0]]) == (a + b + c + d) % m, "fwht_4 output 0");
    assert!(val(data[idx[1]]) == (a + m - b + c + m - d) % m, "fwht_4 output 1");
    assert!(val(data[idx[2]]) == (a + b + 2 * m - c - d) % m, "fwht_4 output 2");
    assert!(val(data[idx[3]]) == (a + m - b + m - c + d) % m, "fwht_4 output 3");
    // neighbours untouched
    assert!(data[(idx[0] + 65535) % 65536] == 0 || idx.contains(&((idx[0] + 65535) % 65536)));
    assert!(data[(idx[3] + 1) % 65536] == 0 || idx.contains(&((idx[3] + 1) % 65536)));
}

h!(add_sub_mod_all_inputs_h, 8, add_sub_mod_all_inputs());
h!(fwht_2_all_inputs_h, 8, fwht_2_all_inputs());
h!(fwht_4_at_0_1, 8, fwht_4_at(0, 1));
h!(fwht_4_at_65532_1, 8, fwht_4_at(65532, 1));
h!(fwht_4_at_12_4, 8, fwht_4_at(12, 4));
h!(fwht_4_at_0_16384, 8, fwht_4_at(0, 16384));
h!(fwht_4_at_16383_16384, 8, fwht_4_at(16383, 16384));
