//! C02 / C13 rate-layer halves: the REAL encoders over the engine contract
//! (SpecEngine) equal the closed-form scaled-Cauchy generator G (basis form),
//! and are additive.
use crate::codec::*;
use crate::model::*;
use crate::{k, kcover};
use reed_solomon_simd::rate::*;

impl MkEngine for SpecEngine {
    fn mk_engine() -> Self {
        SpecEngine
    }
}

pub fn sym_of(s: &[u8]) -> u16 {
    u16::from_le_bytes([s[0], s[1]])
}

/// original `p` symbolic, the others zero => recovery j == G[j][p] * x
pub fn enc_basis<E: Enc>(kk: usize, r: usize, p: usize, g: &'static [[u16; 16]]) {
    set_lanes(1);
    let x: u16 = k::any();
    let mut e = E::mk(kk, r, 2).unwrap();
    let mut i = 0;
    while i < kk {
        let s = if i == p { x.to_le_bytes() } else { [0, 0] };
        e.add(&s).unwrap();
        i += 1;
    }
    let res = e.enc().unwrap();
    let mut j = 0;
    while j < r {
        let rec = res.recovery(j).unwrap();
        assert!(rec.len() == 2);
        assert!(sym_of(rec) == lin(&g[j * kk + p], x), "recovery symbol differs from G[j][p]*x");
        j += 1;
    }
    assert!(res.recovery(r).is_none());
    kcover!(x == 0xffff);
}

/// known answer: concrete originals, expected recovery computed natively by
/// the real crate (validates the model of this path on every run)
pub fn enc_kat<E: Enc>(kk: usize, r: usize, orig: &[u16], expect: &[u16]) {
    set_lanes(1);
    let mut e = E::mk(kk, r, 2).unwrap();
    let mut i = 0;
    while i < kk {
        e.add(&orig[i].to_le_bytes()).unwrap();
        i += 1;
    }
    let res = e.enc().unwrap();
    let mut j = 0;
    while j < r {
        assert!(sym_of(res.recovery(j).unwrap()) == expect[j], "known answer mismatch");
        j += 1;
    }
}

fn enc_syms<E: Enc, const K: usize, const R: usize>(d: &[u16; K]) -> [u16; R] {
    let mut e = E::mk(K, R, 2).unwrap();
    let mut i = 0;
    while i < K {
        e.add(&d[i].to_le_bytes()).unwrap();
        i += 1;
    }
    let res = e.enc().unwrap();
    let mut out = [0u16; R];
    let mut j = 0;
    while j < R {
        out[j] = sym_of(res.recovery(j).unwrap());
        j += 1;
    }
    out
}

fn sym_arr<const K: usize>() -> [u16; K] {
    let mut a = [0u16; K];
    let mut i = 0;
    while i < K {
        a[i] = k::any();
        i += 1;
    }
    a
}

/// C13: enc(a) ^ enc(b) == enc(a ^ b) for fully symbolic a, b; enc(0) == 0
pub fn enc_additive<E: Enc, const K: usize, const R: usize>() {
    set_lanes(1);
    let a: [u16; K] = sym_arr();
    let b: [u16; K] = sym_arr();
    let mut c = [0u16; K];
    let mut i = 0;
    while i < K {
        c[i] = a[i] ^ b[i];
        i += 1;
    }
    let ra = enc_syms::<E, K, R>(&a);
    let rb = enc_syms::<E, K, R>(&b);
    let rc = enc_syms::<E, K, R>(&c);
    let mut j = 0;
    while j < R {
        assert!(ra[j] ^ rb[j] == rc[j], "encoding is not additive");
        j += 1;
    }
    kcover!(a[0] != 0 && b[0] != 0 && a[0] != b[0]);
}

/// deliberately false twin (must FAIL): wrong generator entry
pub fn enc_basis_false_twin<E: Enc>(kk: usize, r: usize, g: &'static [[u16; 16]]) {
    set_lanes(1);
    let x: u16 = k::any();
    let mut e = E::mk(kk, r, 2).unwrap();
    e.add(&x.to_le_bytes()).unwrap();
    let mut i = 1;
    while i < kk {
        e.add(&[0, 0]).unwrap();
        i += 1;
    }
    let res = e.enc().unwrap();
    // compares recovery 0 with the column of original 1 instead of 0
    assert!(sym_of(res.recovery(0).unwrap()) == lin(&g[1], x));
}
