//! C10 — one-shot encode()/decode() vs the documented preconditions (what a
//! streaming ReedSolomonEncoder/Decoder would report). Decided here: every
//! error path and every "nothing to restore" path, for unbounded symbolic
//! indexes. NOT decided: success paths that restore shards (they execute a
//! DefaultRate round over DefaultEngine and fill a HashMap; see DESIGN 6/C10).
use crate::codec::envelope;
use crate::{k, kcover};
use reed_solomon_simd::Error;

pub fn setup_default_engine() {
    reed_solomon_simd::verif_hooks::set_feature_mask(0);
    // no feasible path of these harnesses executes engine arithmetic
    crate::gen::tables::install_dummy_providers();
}

/// fixed hasher keys instead of OS randomness (Kani cannot model getrandom)
pub fn fixed_random_state() -> std::hash::RandomState {
    unsafe { core::mem::transmute::<[u64; 2], std::hash::RandomState>([0x0123456789abcdef, 0xfedcba9876543210]) }
}

fn bad_len(l: usize) -> bool {
    l == 0 || l % 2 == 1
}

/// documented preconditions of decode(k, r, originals, recovery)
pub struct DecInput<'a> {
    /// README envelope for (k, r), precomputed by the generator (concrete per harness)
    pub supported: bool,
    pub k: usize,
    pub r: usize,
    pub o: &'a [(usize, &'a [u8])],
    pub rec: &'a [(usize, &'a [u8])],
}

impl DecInput<'_> {
    fn any_len(&self, l: usize) -> bool {
        self.o.iter().any(|x| x.1.len() == l) || self.rec.iter().any(|x| x.1.len() == l)
    }
    fn dup(list: &[(usize, &[u8])], idx: usize) -> bool {
        let mut n = 0;
        for x in list {
            if x.0 == idx {
                n += 1;
            }
        }
        n >= 2
    }
    pub fn violated(&self) -> bool {
        if !self.supported {
            return true;
        }
        let mut len0 = None;
        for x in self.o.iter().chain(self.rec.iter()) {
            if bad_len(x.1.len()) {
                return true;
            }
            match len0 {
                None => len0 = Some(x.1.len()),
                Some(l) => {
                    if l != x.1.len() {
                        return true;
                    }
                }
            }
        }
        for x in self.o {
            if x.0 >= self.k || Self::dup(self.o, x.0) {
                return true;
            }
        }
        for x in self.rec {
            if x.0 >= self.r || Self::dup(self.rec, x.0) {
                return true;
            }
        }
        self.o.len() + self.rec.len() < self.k
    }
    pub fn truthful(&self, e: Error) -> bool {
        match e {
            Error::UnsupportedShardCount { original_count, recovery_count } => {
                original_count == self.k && recovery_count == self.r && !self.supported
            }
            Error::InvalidShardSize { shard_bytes } => bad_len(shard_bytes) && self.any_len(shard_bytes),
            Error::DifferentShardSize { shard_bytes, got } => shard_bytes != got && self.any_len(shard_bytes) && self.any_len(got),
            Error::InvalidOriginalShardIndex { original_count, index } => {
                original_count == self.k && index >= self.k && self.o.iter().any(|x| x.0 == index)
            }
            Error::InvalidRecoveryShardIndex { recovery_count, index } => {
                recovery_count == self.r && index >= self.r && self.rec.iter().any(|x| x.0 == index)
            }
            Error::DuplicateOriginalShardIndex { index } => Self::dup(self.o, index),
            Error::DuplicateRecoveryShardIndex { index } => Self::dup(self.rec, index),
            Error::NotEnoughShards { original_count, original_received_count, recovery_received_count } => {
                original_count == self.k
                    && original_received_count <= self.o.len()
                    && recovery_received_count <= self.rec.len()
                    && original_received_count + recovery_received_count < self.k
                    // the counts are truthful: fewer than k usable shards were given
                    && self.o.len() + self.rec.len() - self.count_unusable() < self.k
            }
            _ => false,
        }
    }
    /// shards that can never be accepted (out of range or repeated index)
    fn count_unusable(&self) -> usize {
        let mut n = 0;
        let mut i = 0;
        while i < self.o.len() {
            let x = self.o[i];
            if x.0 >= self.k || self.o[..i].iter().any(|y| y.0 == x.0) {
                n += 1;
            }
            i += 1;
        }
        let mut i = 0;
        while i < self.rec.len() {
            let x = self.rec[i];
            if x.0 >= self.r || self.rec[..i].iter().any(|y| y.0 == x.0) {
                n += 1;
            }
            i += 1;
        }
        n
    }
}

/// one-shot decode with `NO` original entries of the given (concrete) lengths
/// and `NR` recovery entries; indexes unbounded symbolic, bytes symbolic.
/// `all_orig`: additionally assume the originals are exactly 0..k in some
/// order (then a violation-free input must give Ok(empty map)).
pub fn oneshot_decode<const NO: usize, const NR: usize>(kk: usize, r: usize, supported: bool, lo: [usize; NO], lr: [usize; NR]) {
    setup_default_engine();
    let buf: [u8; 4] = k::any();
    // stack arrays (field-sensitive under CBMC: the slice lengths stay constants)
    let mut o: [(usize, &[u8]); NO] = [(0, &buf[..0]); NO];
    let mut i = 0;
    while i < NO {
        let idx: usize = k::any();
        o[i] = (idx, &buf[..lo[i]]);
        i += 1;
    }
    let mut rec: [(usize, &[u8]); NR] = [(0, &buf[..0]); NR];
    let mut i = 0;
    while i < NR {
        let idx: usize = k::any();
        rec[i] = (idx, &buf[..lr[i]]);
        i += 1;
    }
    let inp = DecInput { supported, k: kk, r, o: &o, rec: &rec };
    let violated = inp.violated();
    // success paths that restore shards are outside this harness
    let complete = !violated && NO == kk;
    k::assume(violated || complete);
    // structurally empty iterators for empty lists (an iterator over a zero-length array makes
    // CBMC explore the Some branch with garbage)
    let res = if NO == 0 && NR == 0 {
        reed_solomon_simd::decode(kk, r, core::iter::empty::<(usize, &[u8])>(), core::iter::empty::<(usize, &[u8])>())
    } else if NR == 0 {
        reed_solomon_simd::decode(kk, r, o.iter().map(|x| (x.0, x.1)), core::iter::empty::<(usize, &[u8])>())
    } else if NO == 0 {
        reed_solomon_simd::decode(kk, r, core::iter::empty::<(usize, &[u8])>(), rec.iter().map(|x| (x.0, x.1)))
    } else {
        reed_solomon_simd::decode(kk, r, o.iter().map(|x| (x.0, x.1)), rec.iter().map(|x| (x.0, x.1)))
    };
    match res {
        Ok(map) => {
            assert!(!violated, "one-shot decode returned Ok for an input that violates a documented precondition");
            assert!(map.is_empty(), "all originals were given but the result is not empty");
            // the map travelled through a Result payload: CBMC no longer sees that it is the empty
            // singleton and would walk hashbrown's element-dropping code
            core::mem::forget(map);
        }
        Err(e) => {
            assert!(violated, "one-shot decode failed although no precondition is violated");
            assert!(inp.truthful(e), "one-shot decode returned an Err that does not describe a violated precondition");
        }
    }
    kcover!(violated);
}

/// one-shot encode: error paths (a violation-free input runs a full round:
/// outside this harness)
pub fn oneshot_encode<const NO: usize>(kk: usize, r: usize, supported: bool, lo: [usize; NO]) {
    setup_default_engine();
    let buf: [u8; 4] = k::any();
    let mut o: [&[u8]; NO] = [&buf[..0]; NO];
    let mut i = 0;
    while i < NO {
        o[i] = &buf[..lo[i]];
        i += 1;
    }
    let mut lens_ok = true;
    let mut i = 0;
    while i < NO {
        if bad_len(lo[i]) || lo[i] != lo[0] {
            lens_ok = false;
        }
        i += 1;
    }
    let violated = !supported || !lens_ok || NO != kk;
    assert!(violated, "harness family must only contain error inputs");
    // (structurally empty iterator for an empty list, see oneshot_decode)
    let out = if NO == 0 { reed_solomon_simd::encode(kk, r, core::iter::empty::<&[u8]>()) } else { reed_solomon_simd::encode(kk, r, o.iter()) };
    match out {
        Ok(_) => panic!("one-shot encode returned Ok for an input that violates a documented precondition"),
        Err(e) => {
            let truthful = match e {
                Error::UnsupportedShardCount { original_count, recovery_count } => !supported && original_count == kk && recovery_count == r,
                Error::InvalidShardSize { shard_bytes } => bad_len(shard_bytes) && lo.iter().any(|l| *l == shard_bytes),
                Error::DifferentShardSize { shard_bytes, got } => shard_bytes != got && lo.iter().any(|l| *l == shard_bytes) && lo.iter().any(|l| *l == got),
                Error::TooFewOriginalShards { original_count, original_received_count } => {
                    original_count == kk && original_received_count == NO && NO < kk
                }
                Error::TooManyOriginalShards { original_count } => original_count == kk && NO > kk,
                _ => false,
            };
            assert!(truthful, "one-shot encode returned an Err that does not describe a violated precondition");
        }
    }
}
