#!/usr/bin/env python3
"""Driver: decide one property of /verif/properties.jsonl on /repo's current tree.

  check.py <Cnn> [--tier quick|thorough] [--only SUBSTR] [--jobs N] [--keep-going]
  check.py --replay <replay file>
  check.py --list

Exit 0: every obligation discharged by the solver within the stated bounds
        (known findings are printed as KNOWN-FINDING lines).
Exit 1: a counterexample that reproduces natively and is not a known finding:
        `VIOLATION property=<id> replay=<path>`.
Exit 2: inconclusive (timeout, out of memory, unwinding bound too small,
        vacuous harness, counterexample that does not reproduce, tool error).
"""
import argparse
import json
import os
import sys
import time

HERE = os.path.dirname(os.path.abspath(__file__))
sys.path.insert(0, os.path.join(HERE, "lib"))

import prepare  # noqa: E402
import props  # noqa: E402
import replay as replay_mod  # noqa: E402
import runner  # noqa: E402
from evidence import write_evidence  # noqa: E402


def load_known():
    p = os.path.join(HERE, "known_findings.json")
    if not os.path.exists(p):
        return {"findings": [], "fixed": []}
    return json.load(open(p))


def main():
    ap = argparse.ArgumentParser()
    ap.add_argument("prop", nargs="?")
    ap.add_argument("--tier", default=os.environ.get("VERIF_TIER", "quick"), choices=["quick", "thorough"])
    ap.add_argument("--only", default=None)
    ap.add_argument("--jobs", type=int, default=None)
    ap.add_argument("--replay", default=None)
    ap.add_argument("--list", action="store_true")
    ap.add_argument("--no-evidence", action="store_true")
    args = ap.parse_args()
    seed = int(os.environ.get("VERIF_SEED", "0") or 0)

    if args.replay:
        ok = replay_mod.replay_file(args.replay)
        sys.exit(1 if ok else 0)

    if args.list or not args.prop:
        for pid in sorted(props.REGISTRY):
            print(pid)
        return 0

    pid = args.prop
    if pid not in props.REGISTRY:
        print(f"unknown or not-applicable property {pid}")
        return 2

    t0 = time.time()
    ctx = prepare.prepare(pid, args.tier, seed)
    plan = props.REGISTRY[pid](ctx)
    harnesses = [h for h in plan.harnesses if args.tier in h.tiers]
    if args.tier == "quick":
        # measured wall times (lib/slow_harnesses.json, from complete thorough runs): a harness that
        # needed more than QUICK_CAP seconds is never part of the quick tier, whatever the seed picks
        try:
            slow = json.load(open(os.path.join(HERE, "lib", "slow_harnesses.json")))
        except Exception:
            slow = {}
        cap = slow.get("_quick_cap_s", 240)
        dropped = [h.name for h in harnesses if slow.get(h.name, 0) > cap]
        if dropped:
            print(f"[{pid}] {len(dropped)} seed-chosen harness(es) left to the thorough tier (measured > {cap}s): " + ", ".join(d.split("::")[-1] for d in dropped[:6]))
            harnesses = [h for h in harnesses if h.name not in dropped]
    if args.only:
        harnesses = [h for h in harnesses if args.only in h.name]
    if args.tier == "thorough":
        # members that ran out of time or memory in a complete thorough run are listed (value 99999) in
        # lib/slow_harnesses.json: they are not run again; they are reported as not decided, not as success
        try:
            slow = json.load(open(os.path.join(HERE, "lib", "slow_harnesses.json")))
        except Exception:
            slow = {}
        skipped = [h.name for h in harnesses if slow.get(h.name, 0) >= 99999]
        if skipped:
            print(f"[{pid}] {len(skipped)} harness(es) known not to finish (time/memory) are skipped and NOT claimed: " + ", ".join(x.split("::")[-1] for x in skipped[:8]) + (" ..." if len(skipped) > 8 else ""))
            harnesses = [h for h in harnesses if h.name not in skipped]
            plan.outside = list(plan.outside) + ["harnesses that do not finish within the time/memory limits on this machine (not decided): " + ", ".join(x.split("::")[-1] for x in skipped)]
    log_dir = os.path.join(runner.BUILD, "logs", pid)
    print(f"[{pid}] tier={args.tier} seed={seed}: {len(harnesses)} harnesses, {len(plan.zqueries)} solver queries", flush=True)

    zresults = []
    zthread = None
    if plan.zqueries and not args.only:
        import threading
        zbox = {}
        def zrun():
            try:
                zbox["r"] = plan.run_z(ctx, args.tier)
            except Exception as e:  # never let a tool problem look like a verdict
                zbox["r"] = [{"name": "z3_queries", "status": f"error: {e}", "desc": "engine Z failed to run"}]
        zthread = threading.Thread(target=zrun)
        zthread.start()
    results = runner.run_pool(harnesses, jobs=args.jobs, log_dir=log_dir) if harnesses else []
    if zthread:
        zthread.join()
        zresults = zbox.get("r", [])

    known = load_known()
    violations = []      # (what, replay_path)
    known_hits = []
    inconclusive = []
    discharged = 0
    for r in results:
        h = r.harness
        if h.expect == "FAILURE":
            # deliberately false twin: must be refuted, otherwise the family cannot see a violation
            if r.status == "FAILURE":
                discharged += 1
            else:
                inconclusive.append(f"{h.name}: false twin came back {r.status} (family is vacuous)")
            continue
        if r.status == "SUCCESS":
            if r.covers[1] and r.covers[0] != r.covers[1]:
                inconclusive.append(f"{h.name}: only {r.covers[0]} of {r.covers[1]} reachability witnesses satisfied (vacuous)")
            else:
                discharged += 1
            continue
        if r.status == "FAILURE":
            if any("sparse table row not supplied" in f["description"] or "spec table not supplied" in f["description"] for f in r.failed_checks):
                inconclusive.append(f"{h.name}: a table row outside the supplied set was requested")
                continue
            real = [f for f in r.failed_checks if f["status"] == "FAILURE"]
            # a failure is the harness's own only when it is an arithmetic/bounds check located in the
            # harness crate's sources (printed as src/...); panics inside std reached from /repo code
            # (e.g. an overflow in next_power_of_two) are candidate violations and go through replay
            own = [f for f in real if f["location"].startswith("src/")
                   and ("attempt to" in f["description"] or "index out of bounds" in f["description"] or "dereference failure" in f["description"])]
            if own and len(own) == len(real):
                inconclusive.append(f"{h.name}: the harness itself misbehaves ({own[0]['description']} at {own[0]['location']})")
                continue
            rep = replay_mod.replay_counterexample(r, pid, ctx)
            if rep.reproduced:
                k = replay_mod.match_known(known, pid, h, r, rep)
                if k:
                    known_hits.append((k, rep.path))
                else:
                    violations.append((f"{h.name}: {rep.summary}", rep.path))
            else:
                inconclusive.append(f"{h.name}: counterexample did not reproduce natively ({rep.summary})")
            continue
        inconclusive.append(f"{h.name}: {r.status} after {r.wall_s}s")

    for z in zresults:
        if z["status"] == "unsat":
            discharged += 1
        elif z["status"] == "sat":
            rep = replay_mod.replay_zquery(z, pid, ctx)
            if rep.reproduced:
                violations.append((f"{z['name']}: {rep.summary}", rep.path))
            else:
                inconclusive.append(f"{z['name']}: model did not reproduce ({rep.summary})")
        else:
            inconclusive.append(f"{z['name']}: solver answered {z['status']}")

    wall = time.time() - t0
    if not args.no_evidence and not args.only:
        write_evidence(pid, args.tier, seed, plan, results, zresults, discharged, violations, known_hits, inconclusive, wall)

    seen = set()
    for k, path in known_hits:
        if k["id"] in seen:
            continue
        seen.add(k["id"])
        print(f"KNOWN-FINDING: property={pid} {k['what']} (replay={path})")
    for what, path in violations:
        print(f"VIOLATION property={pid} replay={path}")
        print(f"  {what}")
    for s in inconclusive:
        print(f"INCONCLUSIVE: {s}")
    total = len(results) + len(zresults)
    print(f"[{pid}] {discharged}/{total} obligations discharged, {len(violations)} violations, "
          f"{len(known_hits)} known findings, {len(inconclusive)} inconclusive, {wall:.0f}s")
    if violations:
        return 1
    if inconclusive:
        return 2
    return 0


if __name__ == "__main__":
    sys.exit(main())
