#!/usr/bin/env python3
"""Writes /verif/MANIFEST.json from the table below (kept in one place)."""
import json
import os
import subprocess

HERE = os.path.dirname(os.path.dirname(os.path.abspath(__file__)))

KANI = "bounded model checking of the compiled Rust code (Kani 0.68 / CBMC 6.11 + CaDiCaL SAT)"
CLAIMED = {
    "C01": dict(
        text="Bounded model checking of the REAL High/LowRateDecoder code over an executable engine contract: for every configuration with work size <= 8, every erasure pattern (all subsets for k+r <= 5, maximal-loss and surplus patterns above) and every original position, the solver decides for all 2^16 symbol values that decode returns Ok with exactly the missing originals, byte-exact. Tests fix one pattern per configuration; the solver covers every pattern and every value.",
        note="Engine contract (SpecEngine) stands for the real engines (refinement: C15/C03, composition outside the solver); eval_poly by contract; recovery shards from the closed form of C02; basis form + linearity; low rate: 65k-iteration fill replaced by a ghost-range stub; default/one-shot objects not executed (DESIGN 11.2.3).",
        design="6/C01, 11.4", technique=KANI + "; real rate layer over a contract engine, basis form per erasure pattern"),
    "C02": dict(
        text="For every (k,r) with work size <= 16, both rates, every original position: the real encoder's recovery symbols equal G[j][i]*x for all 2^16 values of x, with G from the closed form computed by an independent oracle (field polynomial + Cantor basis only); known-answer harnesses tie the model to native execution of the real crate; deliberately false twins must be refuted.",
        note="SpecEngine contract (real engines: C15/C03); additivity from C13 completes 'for all data'; interoperability with reed-solomon-16 only through the closed form.",
        design="6/C02, 11.4", technique=KANI + "; differential against an independent closed-form oracle"),
    "C03": dict(
        text="Miter harnesses: Ssse3, Avx2 (real intrinsics code, only pshufb modelled) and Naive against NoSimd on fully symbolic 64-byte-block buffers including guard shards: identical bytes for every fft/ifft call tuple in the bound; Naive::mul vs NoSimd::mul; known answers against native execution per engine.",
        note="x86-64 engines and Naive only (Neon port not built); sizes <= 8; pshufb models validated by the known-answer harnesses; mul equality via C15's arbitrary-row proofs + z3 T3.",
        design="6/C03, 11.4", technique=KANI + "; engine-vs-engine miters on symbolic buffers"),
    "C04": dict(
        text="Layout (insert/undo inverse, documented placement, exact sizes) for all slots of shard sizes {2,4,30,62,64,66,126,128,130}; insert/undo inverse over multi-shard ranges (4-9 recovery shards, 1-3 blocks per shard, fully symbolic shard); slot independence through the real encoders/decoders over the lane-wise contract engine with every other byte of every shard arbitrary.",
        note="SpecEngine applied lane by lane; real engines' lane locality from C15/C03; sizes > 130 outside (layout harnesses up to 322); decoder-side undo over ranges >= 4 shards not run (same Shards function as the encoder side).",
        design="6/C04, 11.4, 11.9", technique=KANI + "; symbolic junk in all other slots"),
    "C05": dict(
        text="2-safety by adversarial stale memory: under the poison hook every byte of working memory that survives a reset / cross-rate hand-over is nondeterministic, and the following round must still equal the specification; round-drop-round on fully symbolic first-round data; state after adds+reset equals a fresh codec's state.",
        note="poison hook (verif-hooks) in Shards::resize; SpecEngine; dedicated codecs (default codec's reset is the same calls: C09); bounded histories.",
        design="6/C05, 11.4", technique=KANI + "; nondeterministic stale working memory via hook"),
    "C06": dict(
        text="Every fallible entry point with unbounded symbolic indexes / fully symbolic invalid configuration arguments: Ok iff no documented precondition is violated, Err variant and fields truthful; Kani's full check set (overflow, bounds, unwrap, unreachable) gives panic-freedom on all explored paths, including decode for every received set of four configurations.",
        note="NullEngine (error behaviour is data independent); preconditions transcribed into the harness; rounds on default codecs not executed.",
        design="6/C06, 11.4", technique=KANI + "; full-width symbolic arguments, full check set"),
    "C07": dict(
        text="For every failing-call class (bad index unbounded, duplicate, wrong length, surplus, too few, 11 invalid-reset classes) on dedicated and default codecs: the complete internal state (configuration, counters, bitmap, every byte of working memory via a nondeterministic probe position, pointers, inner rate) is identical before and after the failed call; dedicated codecs then finish the round.",
        note="state observed through read-only hook views; one-shard prefix; NullEngine.",
        design="6/C07, 11.4", technique=KANI + "; state snapshot equality across the failing call"),
    "C08": dict(
        text="Complete decision (no bound other than the 64-bit word) of supports/validate against the README envelope for all nine codec types and of the work-space arithmetic for every supported pair. These functions are loop-free integer code, so the solver covers every value, which no enumeration of 0..65537^2 plus samples could.",
        note="README envelope transcribed by hand; new/reset agreement with validate: C06 (fully symbolic invalid arguments) and C09; executing corner configurations end to end is outside the bound.",
        design="6/C08", technique=KANI + "; full-width symbolic arguments, complete"),
    "C09": dict(
        text="(a) the selection rule for all 2^128 pairs; (b) DefaultRate new/reset build exactly the dedicated codec's state with the rule's rate; (c) every DefaultRate method delegates (identical Results and state vs the dedicated codec for unbounded symbolic indexes and on decode's cheap arms). Complete rounds through the default codec are not executable under CBMC and are not claimed.",
        note="decomposition argument outside the solver (thin match-arm delegation); ReedSolomon wrappers are one-line newtypes; NullEngine.",
        design="6/C09, 11.2.3, 11.4", technique=KANI + "; rule decided at full width, construction/delegation by twin comparison"),
    "C10": dict(
        text="One-shot decode/encode on inputs that violate a precondition or give all originals: Err iff violated, truthful variant/fields, Ok(empty) otherwise - for unbounded symbolic indexes, with and without recovery shards.",
        note="success paths that restore shards are NOT decided (DefaultRate round + HashMap); DefaultEngine under mask 0 with dummy tables; entry counts <= 3.",
        design="6/C10, 11.4", technique=KANI + "; symbolic indexes, truthfulness predicates per Error variant"),
    "C11": dict(
        text="State confluence under adjacent transposition of two add calls (symbolic valid indexes and bytes, twin decoders, complete logical state incl. all working memory) - every order is a product of such swaps; surplus/given-originals clauses through the exhaustive pattern families of C01/C06/C12.",
        note="decode is a deterministic function of the compared state; configurations <= (3,2)/(2,3).",
        design="6/C11, 11.4", technique=KANI + "; twin decoders, adjacent-transposition confluence"),
    "C12": dict(
        text="recovery(i)/restored_original(i) for unbounded symbolic i, iterator contents/order/termination (None forever), and that dropping a result forgets every added shard (counters and bitmap) so that further rounds succeed; all received sets of four configurations.",
        note="NullEngine; 2-3 consecutive rounds.",
        design="6/C12, 11.4", technique=KANI + "; unbounded symbolic index, full check set"),
    "C13": dict(
        text="Additivity of the real encoders over the contract engine for two fully symbolic data sets (work size <= 8); additivity of the real NoSimd fft/ifft and linearity of mul for arbitrary table rows in C15.",
        note="homogeneity through C02's basis form; SpecEngine.",
        design="6/C13, 11.4", technique=KANI + "; 3-run additivity on symbolic data"),
    "C14": dict(
        text="One harness per subset of {AVX2, SSSE3}: under the hook's feature mask DefaultEngine executes exactly the best reported ISA for mul/fft/ifft/eval_poly (trace of target_feature entry points), none when nothing is reported, with bytes identical to NoSimd on symbolic blocks; every engine's eval_poly reaches the shared implementation unchanged.",
        note="feature-mask + ISA-trace hooks; pshufb models; eval_poly body replaced by a marker; Neon branch not compiled on this host.",
        design="6/C14, 11.4", technique=KANI + "; enumerated feature masks, ISA trace"),
    "C15": dict(
        text="Real NoSimd fft/ifft equal the LCH-basis matrices of an independent oracle (basis per input position on symbolic 64-byte blocks + additivity) for every call tuple in the bound; mul of NoSimd/Ssse3/Avx2 is the lane-wise linear map of an ARBITRARY table row; z3 decides that the exp/log/skew/Walsh/multiplication tables produced by the real initialisers equal their definitions at all 65536 indexes.",
        note="eval_poly end to end and the fwht loop schedule are NOT decided (65536-point transforms); sizes <= 8; composition steps outside the solver.",
        design="6/C15, 11.4", technique=KANI + " and z3 (QF_UFBV) over tables dumped from the real initialisers"),
    "C17": dict(
        text="Pointer and capacity stability of the working space and the received bitmap over rounds, non-growing resets and cross-rate hand-over (12 configuration pairs x encoder/decoder) and over chains of 3-4 resets on one object that shrink and grow again inside the capacity held (4 chains x encoder/decoder), growth only when the need exceeds the held capacity.",
        note="decided as 'buffers keep address and capacity' because allocator calls cannot be counted under Kani; temporary allocations would escape.",
        design="6/C17, 11.4, 11.9", technique=KANI + "; pointer/capacity observation through hook views"),
}

NOT_YET = {
}

NOT_APPLICABLE = {
    "C16": "quantifies over thread interleavings of std LazyLock/Once and moves between threads: Kani/CBMC reject thread spawning and model atomics sequentially, and the repository's own contribution has no integer/bit-vector content a solver could decide (DESIGN.md section 8)",
}


def main():
    props = [json.loads(l) for l in open(os.path.join(HERE, "properties.jsonl"))]
    commits = subprocess.run(["git", "-C", "/repo", "log", "--format=%h %s", "--grep=verif-hooks"], stdout=subprocess.PIPE, text=True).stdout.strip().splitlines()
    checks = []
    na = []
    for p in props:
        pid = p["id"]
        if pid in CLAIMED:
            c = CLAIMED[pid]
            checks.append({
                "property_id": pid,
                "quick_cmd": f"./check.py {pid} --tier quick",
                "thorough_cmd": f"./check.py {pid} --tier thorough",
                "evidence_file": f"/verif/evidence/{pid}.json",
                "replay_cmd_template": "./check.py --replay {path}",
                "engine": "kani+z3",
                "level_claimed": {"category": "model_checking", "text": c["text"], "design_ref": c["design"]},
                "level_note": c["note"],
                "technique": c["technique"],
            })
        elif pid in NOT_APPLICABLE:
            na.append({"property_id": pid, "reason": NOT_APPLICABLE[pid]})
        else:
            na.append({"property_id": pid, "reason": NOT_YET.get(pid, "check not built yet in this session (planned in DESIGN.md section 6); not claimed until its harnesses run")})
    m = {
        "version": 1,
        "setup_cmd": "./setup.sh",
        "hooks": {
            "guard": "cargo feature verif-hooks",
            "enable": "the harness crate /verif/harness depends on /repo with features=[\"verif-hooks\"]; cargo kani compiles /repo's current source with it",
            "baseline_off_cmd": "cd /repo && cargo test --workspace --no-fail-fast --offline",
            "source_commits": [c.split()[0] for c in commits],
            "add_only": True,
        },
        "engines": [
            {"name": "kani", "path": "/verif/harness", "serves_properties": sorted(CLAIMED), "kind_free_text": "Kani 0.68 / CBMC 6.11 bounded model checking of the compiled crate; harness families generated by lib/gen.py"},
            {"name": "z3", "path": "/verif/lib/zcheck.py", "serves_properties": ["C15", "C08", "C09"], "kind_free_text": "SMT queries over tables dumped from the real initialisers and over MIR-derived encodings"},
        ],
        "checks": checks,
        "not_applicable": na,
        "notes": "exit 0 = all obligations discharged within stated bounds; exit 1 + VIOLATION line = natively reproduced counterexample; exit 2 = inconclusive (never reported as success). Known findings: /verif/known_findings.json.",
    }
    with open(os.path.join(HERE, "MANIFEST.json"), "w") as f:
        json.dump(m, f, indent=1)
    try:
        import jsonschema
        jsonschema.validate(m, json.load(open("/root/.vp/MANIFEST.schema.json")))
        print("MANIFEST valid:", len(checks), "checks,", len(na), "not applicable")
    except ImportError:
        print("MANIFEST written (jsonschema not available to validate)")


if __name__ == "__main__":
    main()
