#!/bin/bash
# verify_seed.sh <worktree> <outdir>: confirm a seeded change (applied in <worktree>, with tests/seeded_demo.rs):
#  - existing suite passes WITH the change, demo fails WITH it, demo passes WITHOUT it.
set -u
wt=$1; out=$2
mkdir -p $out
cd $wt || exit 1
export CARGO_TARGET_DIR=$wt/target CARGO_NET_OFFLINE=true
git diff -- src > $out/patch.diff
cp tests/seeded_demo.rs $out/seeded_demo.rs 2>/dev/null || { echo "no demo"; exit 1; }
[ -s $out/patch.diff ] || { echo "empty patch"; exit 1; }
# with change: suite (lib + integration_test + doc) passes
cargo test --offline --lib --test integration_test > $out/suite_with.log 2>&1; s1=$?
cargo test --offline --doc >> $out/suite_with.log 2>&1; s1b=$?
cargo test --offline --test seeded_demo > $out/demo_with.log 2>&1; d1=$?
git apply -R $out/patch.diff || { echo "cannot reverse"; exit 1; }
cargo test --offline --test seeded_demo > $out/demo_without.log 2>&1; d2=$?
git apply $out/patch.diff
echo "suite_with=$s1/$s1b demo_with=$d1 demo_without=$d2"
if [ $s1 -eq 0 ] && [ $s1b -eq 0 ] && [ $d1 -ne 0 ] && [ $d2 -eq 0 ]; then echo CONFIRMED; else echo REJECTED; fi
