#!/usr/bin/env python3
"""collect per-harness wall times from check logs (`[i/n] STATUS  12.3s name`) into lib/slow_harnesses.json"""
import glob, json, os, re, sys
out = {"_quick_cap_s": 240, "_note": "wall seconds measured in complete thorough runs on this 16-core box (14 harnesses in parallel); harnesses above the cap are excluded from quick tiers"}
for f in sys.argv[1:]:
    for m in re.finditer(r"\[\d+/\d+\] (\w+)\s+([\d.]+)s (\S+)", open(f).read()):
        t = float(m.group(2))
        if m.group(1) in ("TIMEOUT", "OOM"):
            t = max(t, 99999)
        if t > 120:
            out[m.group(3)] = max(out.get(m.group(3), 0), round(t))
json.dump(out, open(os.path.join(os.path.dirname(os.path.abspath(__file__)), "slow_harnesses.json"), "w"), indent=0, sort_keys=True)
print(len(out) - 2, "harnesses above 120 s recorded")
