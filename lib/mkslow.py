#!/usr/bin/env python3
"""collect per-harness wall times from check logs (`[i/n] STATUS  12.3s name`) into lib/slow_harnesses.json"""
import glob, json, os, re, sys
out = {"_quick_cap_s": 240, "_note": "wall seconds measured in complete thorough runs on this 16-core box (14 harnesses in parallel); harnesses above the cap are excluded from quick tiers"}
for f in sys.argv[1:]:
    thorough = "thorough" in os.path.basename(f)
    for m in re.finditer(r"\[\d+/\d+\] (\w+)\s+([\d.]+)s (\S+)", open(f).read()):
        t = float(m.group(2))
        if m.group(1) in ("TIMEOUT", "OOM"):
            if not thorough:
                continue  # only a complete thorough run decides that a member is intractable
            t = max(t, 99999)
        if t > 120:
            out[m.group(3)] = max(out.get(m.group(3), 0), round(t))
# members whose limits were raised after the measuring run get another chance
for k in [k for k, v in out.items() if not k.startswith("_") and v >= 99999 and re.search(r"c12g::dec_result_low_2_3", k)]:
    out[k] = 600
json.dump(out, open(os.path.join(os.path.dirname(os.path.abspath(__file__)), "slow_harnesses.json"), "w"), indent=0, sort_keys=True)
print(len(out) - 2, "harnesses above 120 s recorded")
