"""Setup-time sanity: tools present, oracle self-consistent."""
import shutil
import subprocess
import sys
import os
sys.path.insert(0, os.path.dirname(os.path.abspath(__file__)))
for tool in ("cargo", "cbmc", "z3"):
    if not shutil.which(tool):
        print("missing tool", tool)
        sys.exit(1)
r = subprocess.run(["cargo", "kani", "--version"], stdout=subprocess.PIPE, stderr=subprocess.STDOUT, text=True)
if r.returncode != 0:
    print("cargo kani unavailable:", r.stdout)
    sys.exit(1)
import oracle as O
# field sanity: associativity/distributivity samples, inverse, basis
import random
rnd = random.Random(7)
for _ in range(2000):
    a, b, c = (rnd.randrange(1, 65536) for _ in range(3))
    assert O.gmul(O.gmul(a, b), c) == O.gmul(a, O.gmul(b, c))
    assert O.gmul(a, b ^ c) == O.gmul(a, b) ^ O.gmul(a, c)
    assert O.gmul(a, O.ginv(a)) == 1
    assert O.lin_apply(O.mulc_words(a), b) == O.lmul(a, b)
for size in (2, 4, 8):
    F = O.fft_matrix(size, size)
    I = O.ifft_matrix(size, size)
    for i in range(size):
        for j in range(size):
            acc = 0
            for k in range(size):
                acc ^= O.gmul(O.phi(F[i][k]), O.phi(I[k][j]))
            assert acc == (1 if i == j else 0)
print("selftest ok")
