#!/bin/bash
# seed_detect.sh <seed dir with patch.diff> <property> [extra check.py args]
# applies the seeded change to /repo, runs the property's check, ALWAYS reverts.
d=$(realpath $1); prop=$2; shift 2
cd /verif
git -C /repo diff --quiet || { echo "/repo is dirty, refusing"; exit 9; }
git -C /repo apply $d/patch.diff || { echo "patch does not apply"; exit 9; }
./check.py $prop --tier quick --no-evidence "$@" > $d/detect_$prop.log 2>&1
rc=$?
git -C /repo checkout -- .
echo "$prop exit=$rc $(grep -c '^VIOLATION' $d/detect_$prop.log) violations; $(tail -1 $d/detect_$prop.log)"
exit $rc
