"""Regenerate everything the harnesses need from /repo's CURRENT source.

1. build the native companion (path dependency on /repo, hooks OFF) - cargo
   rebuilds it whenever /repo changed;
2. dump the lookup tables the real initialisers produce;
3. generate harness/src/gen/*.rs (sparse table rows, skew static, oracle
   constants, known answers, enumerated harness families).
All steps are deterministic and independent of property/tier/seed, so
concurrent checks share the result (file lock).
"""
import fcntl
import os
import struct
import subprocess
import sys
import time

import runner

TABLES = os.path.join(runner.BUILD, "tables")
NATIVE_TARGET = os.path.join(runner.BUILD, "native-target")
NATIVE_BIN = os.path.join(NATIVE_TARGET, "debug", "rsnative")


class Native:
    """line protocol to the native companion (real crate, no hooks)"""

    def __init__(self):
        self.p = subprocess.Popen([NATIVE_BIN], stdin=subprocess.PIPE, stdout=subprocess.PIPE, text=True)

    def cmd(self, s):
        self.p.stdin.write(s + "\n")
        self.p.stdin.flush()
        return self.p.stdout.readline().strip()

    def close(self):
        try:
            self.p.stdin.close()
            self.p.wait(timeout=5)
        except Exception:
            self.p.kill()


class Ctx:
    def __init__(self, pid, tier, seed):
        self.pid, self.tier, self.seed = pid, tier, seed
        self._tables = {}
        self._native = None
        self.timings = {}

    def table(self, name):
        if name not in self._tables:
            raw = open(os.path.join(TABLES, name + ".bin"), "rb").read()
            if name in ("mul16",):
                self._tables[name] = struct.unpack("<%dH" % (len(raw) // 2), raw)
            elif name == "mul128":
                self._tables[name] = raw
            else:
                self._tables[name] = struct.unpack("<%dH" % (len(raw) // 2), raw)
        return self._tables[name]

    @property
    def native(self):
        if self._native is None:
            self._native = Native()
        return self._native


def sh(cmd, **kw):
    r = subprocess.run(cmd, stdout=subprocess.PIPE, stderr=subprocess.STDOUT, text=True, env=runner.ENV, **kw)
    return r.returncode, r.stdout


def prepare(pid, tier, seed, quiet=False):
    os.makedirs(runner.BUILD, exist_ok=True)
    ctx = Ctx(pid, tier, seed)
    lock = open(os.path.join(runner.BUILD, ".prepare.lock"), "w")
    fcntl.flock(lock, fcntl.LOCK_EX)
    try:
        t0 = time.time()
        rc, out = sh(["cargo", "build", "--offline", "--target-dir", NATIVE_TARGET], cwd=runner.NATIVE_DIR)
        if rc != 0:
            print(out[-3000:])
            print("INCONCLUSIVE: native companion does not build against /repo")
            sys.exit(2)
        ctx.timings["native_build_s"] = round(time.time() - t0, 2)
        t0 = time.time()
        nat = Native()
        r = nat.cmd(f"dump {TABLES}")
        nat.close()
        if r != "ok":
            print("INCONCLUSIVE: table dump failed:", r)
            sys.exit(2)
        ctx.timings["dump_s"] = round(time.time() - t0, 2)
        t0 = time.time()
        import gen
        gen.generate(ctx)
        ctx.timings["gen_s"] = round(time.time() - t0, 2)
        # fail fast: the harness crate must compile (natively: this is also the replay binary)
        t0 = time.time()
        rc, out = sh(["cargo", "build", "--offline", "--bin", "replay", "--target-dir", os.path.join(runner.BUILD, "replay-target")], cwd=runner.HARNESS_DIR)
        if rc != 0:
            import re as _re
            errs = _re.findall(r"^error.*(?:\n.*){0,12}", out, _re.M)
            print("\n".join(errs[:4]) or out[-3000:])
            print("INCONCLUSIVE: the harness crate does not compile against /repo's current source")
            sys.exit(2)
        ctx.timings["harness_native_build_s"] = round(time.time() - t0, 2)
    finally:
        fcntl.flock(lock, fcntl.LOCK_UN)
    return ctx
