import json
import os

import runner


def write_evidence(pid, tier, seed, plan, results, zresults, discharged, violations, known_hits, inconclusive, wall):
    hs = []
    solver_s = 0.0
    nontrivial = 0
    encodes = []
    for r in results:
        h = r.harness
        ok = (r.status == "SUCCESS" and h.expect == "SUCCESS" and (r.covers[1] == 0 or r.covers[0] == r.covers[1]))
        if ok and h.symbolic:
            nontrivial += 1
        solver_s += r.stats.get("symex_s", 0) + r.stats.get("solver_s", 0)
        for e in h.encodes:
            if e not in encodes:
                encodes.append(e)
        hs.append({"harness": h.name, "expect": h.expect, "status": r.status, "wall_s": r.wall_s,
                   "covers": list(r.covers), "checks": "full" if "--no-overflow-checks" not in h.flags else "functional",
                   "stubs": h.stubs, "bounds": h.bounds, "symbolic": h.symbolic, "asserts": h.desc, **r.stats})
    for z in zresults:
        if z["status"] == "unsat":
            nontrivial += 1
        solver_s += z.get("solver_s", 0)
    total = len(results) + len(zresults)
    samples = [{"harness": x["harness"], "asserts": x["asserts"], "symbolic": x["symbolic"], "bounds": x["bounds"], "status": x["status"]} for x in hs[:6]]
    samples += [{"query": z["name"], "asserts": z.get("desc", ""), "status": z["status"]} for z in zresults[:4]]
    ev = {
        "property_id": pid,
        "tier": tier,
        "seed": seed,
        "level": "model_checking",
        "coverage": {
            "evaluations": total,
            "distinct_nontrivial": nontrivial,
            "rule": plan.rule or "one solver query per harness/SMT query; non-trivial = has symbolic inputs, verdict SUCCESSFUL/unsat, all reachability witnesses satisfied",
            "samples": samples or [{"note": "no obligations selected"}],
            "obligations": total,
            "discharged": discharged,
            "checker_cmd": f"./check.py {pid} --tier {tier}",
            "trusted_base": plan.trusted_base,
            "exhaustive": False,
            "technique": "bounded model checking of the compiled Rust code (Kani/CBMC, SAT) and SMT queries (z3) over tables dumped from the real initialisers",
            "functions_encoded": encodes,
            "solver_time_s": round(solver_s, 1),
            "outside_bounds": plan.outside,
            "harnesses": hs,
            "smt_queries": [{k: v for k, v in z.items() if k != "confirm"} for z in zresults],
            "inconclusive": inconclusive,
            "known_findings_hit": [k["id"] for k, _ in known_hits],
        },
        "assumptions": plan.assumptions,
        "wall_s": round(wall, 1),
        "violations": len(violations),
    }
    d = os.path.join(runner.VERIF, "evidence")
    os.makedirs(d, exist_ok=True)
    with open(os.path.join(d, f"{pid}.json"), "w") as f:
        json.dump(ev, f, indent=1)
