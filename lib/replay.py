"""Native replay of solver counterexamples (nothing is reported unreplayed)."""
import json
import os
import re
import shutil
import subprocess
from dataclasses import dataclass

import runner

REPLAYS = os.path.join(runner.VERIF, "replays")


@dataclass
class Replay:
    reproduced: bool
    summary: str
    path: str


def replay_counterexample(result, pid, ctx):
    return Replay(False, "replay not implemented yet", "")


def replay_zquery(z, pid, ctx):
    return Replay(False, "replay not implemented yet", "")


def match_known(known, pid, h, r, rep):
    for k in known.get("findings", []):
        if k.get("property") == pid and k.get("key") and k["key"] == h.finding_key:
            return k
    return None


def replay_file(path):
    print("replay not implemented yet")
    return False
