"""Native replay of solver counterexamples (nothing is reported unreplayed).

For a FAILED Kani harness:
 1. re-run it with --verbose in a scratch target dir to learn the exact cbmc
    command Kani used;
 2. run cbmc once more for the failed property only, with
    `--trace --trace-show-function-calls`, and read the value of every
    symbolic input from the calls of `k::Sym::sym` (leaf integer types), in
    call order; inputs the slicer removed are unconstrained (0 is used);
 3. build the harness crate NATIVELY (bin `replay`, dev and release profile;
    the real /repo code with hooks on) and run the same harness function on
    the recorded witness.  A panic = the counterexample reproduces.
"""
import glob
import json
import os
import re
import shlex
import subprocess
import time
from dataclasses import dataclass

import runner

REPLAYS = os.path.join(runner.VERIF, "replays")
REPLAY_TARGET = os.path.join(runner.BUILD, "replay-target")

LEAF = re.compile(r"Function call: (_R\w*1k(?:h|t|m|y|j)NtB\w+_3Sym3sym)\(\)")


@dataclass
class Replay:
    reproduced: bool
    summary: str
    path: str
    detail: dict = None


def cbmc_command(h):
    """ask Kani (verbose) for the cbmc command line of this harness"""
    sl = runner.Slot()
    try:
        return _cbmc_command(h, sl.id)
    finally:
        sl.release()


def _cbmc_command(h, slot):
    tdir = os.path.join(runner.BUILD, f"kt{slot}")
    cmd = ["cargo", "kani", "--target-dir", tdir, "--exact", "--harness", h.name, "--verbose"] + list(h.flags)
    if h.stubs:
        cmd += ["-Z", "stubbing"]
    p = subprocess.Popen(cmd, cwd=runner.HARNESS_DIR, env=runner.ENV, stdout=subprocess.PIPE, stderr=subprocess.STDOUT, text=True,
                         preexec_fn=os.setsid)
    found = None
    try:
        for line in p.stdout:
            m = re.search(r"Running: `(cbmc [^`]*)`", line)
            if m:
                found = m.group(1)
                break
    finally:
        try:
            os.killpg(p.pid, 9)
        except ProcessLookupError:
            pass
        p.wait()
    return found


def parse_witness(trace):
    """values of the leaf k::Sym::sym calls in call order"""
    vals = []
    lines = trace.splitlines()
    i = 0
    n = len(lines)
    while i < n:
        m = LEAF.search(lines[i])
        if not m:
            i += 1
            continue
        fn = m.group(1)
        val = None
        j = i + 1
        while j < n and not (("Function return from " + fn) in lines[j]):
            mm = re.match(r"\s+v=.*\(([01 ]+)\)\s*$", lines[j])
            if mm and val is None:
                val = int(mm.group(1).replace(" ", ""), 2)
            j += 1
        vals.append(val)
        i = j + 1
    return vals


def extract_witness(h, failed_check, log=None):
    cmdline = cbmc_command(h)
    if not cmdline:
        return None, "could not obtain the cbmc command from kani --verbose"
    args = shlex.split(cmdline)
    args = [a for a in args if a not in ("--json-ui",)]
    # drop "--verbosity 9"
    out = []
    skip = False
    for a in args:
        if skip:
            skip = False
            continue
        if a == "--verbosity":
            skip = True
            continue
        out.append(a)
    out += ["--property", failed_check, "--trace", "--trace-show-function-calls"]
    try:
        r = subprocess.run(out, stdout=subprocess.PIPE, stderr=subprocess.STDOUT, text=True, timeout=max(600, h.timeout), cwd="/tmp")
    except subprocess.TimeoutExpired:
        return None, "cbmc trace generation timed out"
    if log:
        with open(log, "w") as f:
            f.write(" ".join(out) + "\n" + r.stdout)
    if "VERIFICATION FAILED" not in r.stdout:
        return None, "cbmc did not reproduce the failure for the single property"
    return parse_witness(r.stdout), ""


def build_native():
    res = {}
    for prof, flag in (("dev", []), ("release", ["--release"])):
        r = subprocess.run(["cargo", "build", "--offline", "--bin", "replay", "--target-dir", REPLAY_TARGET] + flag,
                           cwd=runner.HARNESS_DIR, env=runner.ENV, stdout=subprocess.PIPE, stderr=subprocess.STDOUT, text=True)
        res[prof] = (r.returncode == 0, r.stdout[-2000:])
    return res


def run_native(harness_name, witness):
    """-> {profile: {exit, reproduced, output}}"""
    built = build_native()
    out = {}
    for prof, sub in (("dev", "debug"), ("release", "release")):
        ok, msg = built[prof]
        if not ok:
            out[prof] = {"exit": None, "reproduced": False, "output": "native build failed: " + msg[-500:]}
            continue
        exe = os.path.join(REPLAY_TARGET, sub, "replay")
        try:
            r = subprocess.run([exe, harness_name] + [str(v or 0) for v in witness], stdout=subprocess.PIPE, stderr=subprocess.STDOUT,
                               text=True, timeout=600)
            code, txt = r.returncode, r.stdout
        except subprocess.TimeoutExpired:
            code, txt = None, "native replay timed out"
        out[prof] = {"exit": code, "reproduced": code == 101 or (code is not None and code < 0), "output": txt[-1500:]}
    return out


def replay_counterexample(result, pid, ctx):
    h = result.harness
    os.makedirs(REPLAYS, exist_ok=True)
    real = [f for f in result.failed_checks if f["status"] == "FAILURE" and f["check"]]
    path = os.path.join(REPLAYS, f"{pid}-{h.name.replace('::', '__')}.json")
    if not real:
        return Replay(False, "no failed check id in the Kani output", "")
    fc = real[0]
    log = os.path.join(runner.BUILD, "logs", pid, h.name.replace("::", "__") + ".trace.log")
    os.makedirs(os.path.dirname(log), exist_ok=True)
    witness, err = extract_witness(h, fc["check"], log)
    if witness is None:
        return Replay(False, err, "")
    native = run_native(h.name, witness)
    reproduced = any(v["reproduced"] for v in native.values())
    panic = ""
    for v in native.values():
        m = re.search(r"panicked at ([^\n]*)\n([^\n]*)", v["output"])
        if m:
            panic = (m.group(1) + ": " + m.group(2)).strip()
            break
    profiles = [p for p, v in native.items() if v["reproduced"]]
    doc = {
        "property": pid,
        "harness": h.name,
        "asserts": h.desc,
        "failed_check": fc,
        "all_failed_checks": real[:10],
        "witness": [v if v is not None else None for v in witness],
        "witness_note": "values of the harness's symbolic inputs in call order (null = unconstrained in the counterexample, replayed as 0)",
        "native": native,
        "reproduced_in_profiles": profiles,
        "replay_cmd": f"./check.py --replay {path}",
    }
    with open(path, "w") as f:
        json.dump(doc, f, indent=1)
    summ = f"{fc['description']} at {fc['location']}; native replay: " + (f"panics in {'+'.join(profiles)} profile ({panic})" if reproduced else "no panic")
    return Replay(reproduced, summ, path, doc)


def replay_zquery(z, pid, ctx):
    os.makedirs(REPLAYS, exist_ok=True)
    path = os.path.join(REPLAYS, f"{pid}-{z['name']}.json")
    ok, summary = z["confirm"](z) if z.get("confirm") else (False, "no native confirmation available")
    doc = {k: v for k, v in z.items() if k != "confirm"}
    doc["property"] = pid
    doc["confirmed_natively"] = ok
    doc["summary"] = summary
    with open(path, "w") as f:
        json.dump(doc, f, indent=1, default=str)
    return Replay(ok, summary, path)


def match_known(known, pid, h, r, rep):
    """a known finding is identified by property + failing call site (source
    location of the failed check) + harness family key"""
    loc = rep.detail["failed_check"]["location"] if rep.detail else ""
    desc = rep.detail["failed_check"]["description"] if rep.detail else ""
    for k in known.get("findings", []):
        if k.get("property") != pid:
            continue
        if k.get("site") and k["site"] in loc and k.get("description", "") in desc:
            return k
    return None


def replay_file(path):
    """re-run a stored replay natively; True when it still reproduces"""
    doc = json.load(open(path))
    if "witness" in doc:
        import prepare
        prepare.prepare(doc["property"], "quick", 0)
        native = run_native(doc["harness"], doc["witness"])
        for prof, v in native.items():
            print(f"[{prof}] exit={v['exit']} reproduced={v['reproduced']}")
            print(v["output"][-600:])
        return any(v["reproduced"] for v in native.values())
    print(json.dumps(doc, indent=1)[:3000])
    return False
