"""Pool runner for Kani harnesses + result classification."""
import json
import os
import re
import resource
import shutil
import subprocess
import threading
import time
from dataclasses import dataclass, field

VERIF = os.path.dirname(os.path.dirname(os.path.abspath(__file__)))
BUILD = os.path.join(VERIF, "build")
HARNESS_DIR = os.path.join(VERIF, "harness")
NATIVE_DIR = os.path.join(VERIF, "native")

ENV = dict(os.environ)
ENV.update({"CARGO_NET_OFFLINE": "true", "CARGO_TERM_COLOR": "never"})

# check sets -------------------------------------------------------------
# FULL: Kani default checks (overflow, bounds, pointer validity, unwrap,
# unreachable!, panics, unwinding assertions).  FUNC: functional harnesses,
# memory-safety and overflow instrumentation off (decided separately by the
# FULL harnesses of C06/C08/C15); assert!/panic!/unwrap/unreachable! and the
# unwinding assertions stay on in both.
FULL = ["-Z", "unstable-options", "--no-assertion-reach-checks"]
FUNC = FULL + ["--no-memory-safety-checks", "--no-overflow-checks"]


@dataclass
class Harness:
    name: str                 # module::function
    prop: str
    desc: str                 # what is encoded / asserted (goes to evidence)
    encodes: list = field(default_factory=list)   # real functions executed symbolically
    bounds: str = ""
    flags: list = field(default_factory=lambda: list(FUNC))
    stubs: list = field(default_factory=list)     # needs -Z stubbing
    timeout: int = 900
    mem_gb: int = 6
    expect: str = "SUCCESS"   # or "FAILURE" for deliberately false twins
    tiers: tuple = ("quick", "thorough")
    symbolic: str = ""        # what is symbolic (non-trivial rule)
    finding_key: str = ""     # for known-finding matching
    extra: dict = field(default_factory=dict)


@dataclass
class Result:
    harness: Harness
    status: str               # SUCCESS | FAILURE | TIMEOUT | OOM | ERROR | UNWIND
    wall_s: float
    failed_checks: list
    covers: tuple             # (satisfied, total)
    stats: dict
    log: str


_slot_lock = threading.Lock()


def _limit(mem_gb):
    def f():
        lim = int(mem_gb * (1 << 30))
        resource.setrlimit(resource.RLIMIT_AS, (lim, lim))
        os.setsid()
    return f


def parse_kani(out):
    status = "ERROR"
    if "VERIFICATION:- SUCCESSFUL" in out:
        status = "SUCCESS"
    elif "VERIFICATION:- FAILED" in out:
        status = "FAILURE"
    failed = []
    for m in re.finditer(r"Check \d+: (.+)\n\s+- Status: (FAILURE|UNDETERMINED|ERROR)\n\s+- Description: \"((?:.|\n)*?)\"\n\s+- Location: (.*)", out):
        # (a long assert!() expression is printed over several lines: the description may contain newlines)
        failed.append({"check": m.group(1), "status": m.group(2), "description": " ".join(m.group(3).split()), "location": m.group(4).strip()[:200]})
    # terse "Failed Checks:" lines
    for m in re.finditer(r"^Failed Checks: (.*)$", out, re.M):
        d = m.group(1).strip()
        if not any(f["description"] == d or f["description"].startswith(d) for f in failed):
            failed.append({"check": "", "status": "FAILURE", "description": d, "location": ""})
    cov = (0, 0)
    m = re.search(r"\*\* (\d+) of (\d+) cover properties satisfied", out)
    if m:
        cov = (int(m.group(1)), int(m.group(2)))
    stats = {}
    m = re.search(r"Runtime Symex: ([\d.e+-]+)s", out)
    if m:
        stats["symex_s"] = float(m.group(1))
    ms = re.findall(r"Runtime decision procedure: ([\d.e+-]+)s", out)
    if ms:
        stats["solver_s"] = round(sum(float(x) for x in ms), 3)
    m = re.findall(r"(\d+) variables, (\d+) clauses", out)
    if m:
        stats["sat_vars"] = int(m[-1][0])
        stats["sat_clauses"] = int(m[-1][1])
    m = re.search(r"Generated (\d+) VCC\(s\), (\d+) remaining", out)
    if m:
        stats["vccs"] = int(m.group(1))
        stats["vccs_remaining"] = int(m.group(2))
    m = re.search(r"Verification Time: ([\d.]+)s", out)
    if m:
        stats["kani_verification_s"] = float(m.group(1))
    if status == "FAILURE":
        real = [f for f in failed if f["status"] == "FAILURE"]
        if any("unwinding assertion" in f["description"] for f in real):
            status = "UNWIND"
        elif not real:
            # FAILED without a failed check: out of memory / solver error
            status = "OOM" if ("std::bad_alloc" in out or "out of memory" in out.lower() or "Status: ERROR" in out) else "ERROR"
    if status == "ERROR" and ("std::bad_alloc" in out or "memory exhausted" in out):
        status = "OOM"
    return status, failed, cov, stats


class Slot:
    """a cargo target dir owned exclusively (across processes) while held"""

    def __init__(self):
        import fcntl
        d = os.path.join(BUILD, "slots")
        os.makedirs(d, exist_ok=True)
        while True:
            for i in range(32):
                f = open(os.path.join(d, f"slot{i}.lock"), "w")
                try:
                    fcntl.flock(f, fcntl.LOCK_EX | fcntl.LOCK_NB)
                    self.f, self.id = f, i
                    return
                except OSError:
                    f.close()
            time.sleep(1)

    def release(self):
        self.f.close()


def run_one(h, slot, extra_args=(), log_dir=None, harness_dir=None):
    tdir = os.path.join(BUILD, f"kt{slot}")
    cmd = ["cargo", "kani", "--target-dir", tdir, "--exact", "--harness", h.name] + list(h.flags)
    if h.stubs:
        cmd += ["-Z", "stubbing"]
    cmd += list(extra_args)
    t0 = time.time()
    try:
        p = subprocess.Popen(cmd, cwd=harness_dir or HARNESS_DIR, env=ENV, stdout=subprocess.PIPE, stderr=subprocess.STDOUT,
                             text=True, preexec_fn=_limit(h.mem_gb))
        try:
            out, _ = p.communicate(timeout=h.timeout)
            timed_out = False
        except subprocess.TimeoutExpired:
            try:
                os.killpg(p.pid, 9)
            except ProcessLookupError:
                pass
            out, _ = p.communicate()
            timed_out = True
    except Exception as e:  # pragma: no cover
        out, timed_out = f"runner exception {e}", False
    wall = time.time() - t0
    if timed_out:
        status, failed, cov, stats = "TIMEOUT", [], (0, 0), {}
    else:
        status, failed, cov, stats = parse_kani(out)
        if status == "ERROR" and re.search(r"error(\[E\d+\])?:", out):
            status = "ERROR"
    if log_dir:
        os.makedirs(log_dir, exist_ok=True)
        with open(os.path.join(log_dir, h.name.replace("::", "__") + ".log"), "w") as f:
            f.write(" ".join(cmd) + "\n" + out)
    return Result(h, status, round(wall, 2), failed, cov, stats, out)


def run_pool(harnesses, jobs=None, mem_budget_gb=88, log_dir=None, progress=True):
    """Run harnesses in parallel; each worker owns a cargo target dir."""
    jobs = jobs or int(os.environ.get("VERIF_JOBS", "14"))
    jobs = max(1, min(jobs, len(harnesses)))
    pending = sorted(harnesses, key=lambda h: -h.timeout)
    results = []
    lock = threading.Lock()
    mem_used = [0]
    cond = threading.Condition(lock)

    def worker(_n):
        sl = Slot()
        try:
            worker_loop(sl.id)
        finally:
            sl.release()

    def worker_loop(slot):
        while True:
            with cond:
                while True:
                    if not pending:
                        return
                    # first pending harness that fits the memory budget
                    idx = next((i for i, h in enumerate(pending) if mem_used[0] + h.mem_gb <= mem_budget_gb or mem_used[0] == 0), None)
                    if idx is not None:
                        h = pending.pop(idx)
                        mem_used[0] += h.mem_gb
                        break
                    cond.wait(timeout=5)
            r = run_one(h, slot, log_dir=log_dir)
            with cond:
                mem_used[0] -= h.mem_gb
                results.append(r)
                if progress:
                    print(f"  [{len(results)}/{len(harnesses)}] {r.status:8s} {r.wall_s:7.1f}s {h.name}", flush=True)
                cond.notify_all()

    threads = [threading.Thread(target=worker, args=(i,)) for i in range(jobs)]
    for t in threads:
        t.start()
    for t in threads:
        t.join()
    order = {h.name: i for i, h in enumerate(harnesses)}
    results.sort(key=lambda r: order[r.harness.name])
    return results
