"""Engine Z: z3 decides 16-bit-universal statements over the tables that the
REAL initialisers of /repo produced (native dump, hooks off, regenerated on
every run).  Each query asks for a counterexample INDEX; `unsat` = the table
equals its definition at all 65536 (or 65535) indexes.  Tables enter as
uninterpreted functions with ground equalities (QF_UFBV); any `(error` line
or timeout is inconclusive.  A `sat` model is confirmed natively (python
re-evaluation of definition vs dump at that index) before it is reported.
"""
import os
import re
import subprocess
import time
from concurrent.futures import ThreadPoolExecutor

import oracle as O
import runner

ZDIR = os.path.join(runner.BUILD, "z")
Z3 = "/usr/bin/z3"


def bv(v, w=16):
    return f"(_ bv{v} {w})"


def table_fun(name, vals, w_in=16, w_out=16):
    out = [f"(declare-fun {name} ((_ BitVec {w_in})) (_ BitVec {w_out}))"]
    out += [f"(assert (= ({name} {bv(i, w_in)}) {bv(v, w_out)}))" for i, v in enumerate(vals)]
    return "\n".join(out)


def linmap(words, x):
    """XOR over bits b of x of words[b] (a GF(2)-linear map given by 16 words)"""
    terms = [f"(ite (= ((_ extract {b} {b}) {x}) #b1) {bv(words[b])} #x0000)" for b in range(16)]
    e = terms[0]
    for t in terms[1:]:
        e = f"(bvxor {e} {t})"
    return e


PHI_WORDS = O.CANTOR  # phi(2^b) = CANTOR[b]
PHI_INV_WORDS = [O.phi_inv(1 << b) for b in range(16)]


def header():
    return "(set-logic QF_UFBV)\n(set-option :produce-models true)\n"


def mulx(a):
    """multiplication by x (= the generator) modulo 0x1002D, on a 16-bit vector"""
    return f"(bvxor (bvshl {a} #x0001) (ite (= ((_ extract 15 15) {a}) #b1) #x002d #x0000))"


def q_exp_successor(ctx):
    exp = ctx.table("exp")
    s = header() + table_fun("EXP", exp)
    s += "\n(declare-const e (_ BitVec 16))\n(assert (bvult e #xfffe))\n"
    a = linmap(PHI_WORDS, "(EXP e)")
    b = linmap(PHI_WORDS, "(EXP (bvadd e #x0001))")
    s += f"(assert (or (not (= {b} {mulx(a)})) (not (= {linmap(PHI_WORDS, '(EXP #x0000)')} #x0001)) (not (= (EXP #xffff) (EXP #x0000)))))\n"
    s += "(check-sat)\n"
    return dict(name="T1_exp_successor", desc="phi(EXP[e+1]) = x * phi(EXP[e]) for all e < 65534, phi(EXP[0]) = 1, EXP[65535] = EXP[0]: EXP is the exponential of the generator of GF(2^16)/0x1002D read in the Cantor basis",
                smt=s, vars=["e"], tables=["exp"])


def q_log_inverse(ctx):
    exp, log = ctx.table("exp"), ctx.table("log")
    s = header() + table_fun("EXP", exp) + "\n" + table_fun("LOG", log)
    s += "\n(declare-const x (_ BitVec 16))\n"
    s += "(assert (or (and (not (= x #x0000)) (or (not (= (EXP (LOG x)) x)) (not (bvult (LOG x) #xffff)))) (not (= (LOG #x0000) #xffff))))\n"
    s += "(check-sat)\n"
    return dict(name="T1_log_inverse", desc="EXP[LOG[x]] = x and LOG[x] < 65535 for all x != 0; LOG[0] = 65535", smt=s, vars=["x"], tables=["exp", "log"])


def skew_words(d):
    """label-domain linear map x -> phi_inv(s_hat_d(x)) as 16 words; linearity is checked on samples"""
    w = [O.phi_inv(O.s_hat(d, 1 << b)) for b in range(16)]
    import random
    rnd = random.Random(d)
    for _ in range(20):
        x = rnd.randrange(65536)
        assert O.lin_apply(w, x) == O.phi_inv(O.s_hat(d, x)), "s_hat is not linear?"
    return w


def q_log_inverse_twin(ctx):
    """deliberately false twin: one LOG entry perturbed; z3 must find it"""
    exp, log = ctx.table("exp"), list(ctx.table("log"))
    log[12345] ^= 1
    s = header() + table_fun("EXP", exp) + "\n" + table_fun("LOG", log)
    s += "\n(declare-const x (_ BitVec 16))\n"
    s += "(assert (bvult x #x4000))\n"
    s += "(assert (and (not (= x #x0000)) (or (not (= (EXP (LOG x)) x)) (not (bvult (LOG x) #xffff)))))\n(check-sat)\n"
    return dict(name="T1_log_inverse_false_twin", desc="deliberately false twin: LOG[12345] perturbed, the solver must return that index", smt=s, vars=["x"], tables=["exp", "log"], expect="sat", expect_model={"x": "12345"})


def q_skew(ctx, d):
    log, skew = ctx.table("log"), ctx.table("skew")
    s = header() + table_fun("LOG", log) + "\n" + table_fun("SKEW", list(skew) + [0])
    # beta = (h << (d+1)) | (1 << d), beta in 1..65535; the argument is beta xor 2^d = h << (d+1)
    s += "\n(declare-const beta (_ BitVec 16))\n"
    s += f"(assert (= ((_ extract {d} 0) beta) {bv(1 << d, d + 1)}))\n"
    arg = f"(bvxor beta {bv(1 << d)})"
    s += f"(assert (not (= (SKEW (bvsub beta #x0001)) (LOG {linmap(skew_words(d), arg)}))))\n"
    s += "(check-sat)\n"
    return dict(name=f"T4_skew_d{d}", desc=f"SKEW[beta-1] = LOG[s_hat_{d}(beta xor 2^{d})] for every beta with {d} trailing zeros (s_hat_{d}: normalised subspace polynomial as a GF(2)-linear map from the oracle)",
                smt=s, vars=["beta"], tables=["log", "skew"], d=d)


def q_mul16(ctx, t, i):
    exp, mul16, mul128 = ctx.table("exp"), ctx.table("mul16"), ctx.table("mul128")
    col = [mul16[m * 64 + t * 16 + i] for m in range(65536)]
    lo = [mul128[m * 128 + 16 * t + i] for m in range(65536)]
    hi = [mul128[m * 128 + 64 + 16 * t + i] for m in range(65536)]
    s = header() + table_fun("EXP", exp) + "\n" + table_fun("COL", col) + "\n" + table_fun("LO", lo, 16, 8) + "\n" + table_fun("HI", hi, 16, 8)
    s += "\n(declare-const m (_ BitVec 16))\n"
    c = O.phi(i << (4 * t))           # constant field element
    # product phi(i<<4t) * phi(EXP[m]) is linear in phi(EXP[m]); words: c * 2^b in the field
    prodw = [O.gmul(c, 1 << b) for b in range(16)]
    fe = linmap(PHI_WORDS, "(EXP m)")
    s += f"(define-fun FE () (_ BitVec 16) {fe})\n"
    prod = linmap(prodw, "FE")
    s += f"(define-fun PR () (_ BitVec 16) {prod})\n"
    lab = linmap(PHI_INV_WORDS, "PR")
    s += f"(assert (or (not (= (COL m) {lab})) (not (= (LO m) ((_ extract 7 0) (COL m)))) (not (= (HI m) ((_ extract 15 8) (COL m))))))\n"
    s += "(check-sat)\n"
    return dict(name=f"T2_T3_mul_t{t}_i{i}", desc=f"for every log_m: MUL16[log_m][{t}][{i}] = phi^-1(phi({i}<<{4 * t}) * phi(EXP[log_m])) (the nibble table of multiplication by g^log_m) and MUL128[log_m].lo/hi[{t}] byte {i} are its low/high bytes",
                smt=s, vars=["m"], tables=["exp", "mul16", "mul128"], t=t, i=i)


def q_log_walsh(ctx):
    lw = ctx.table("log_walsh")
    ref = [int(v) for v in O.walsh_log_table()]
    s = header() + table_fun("LW", [v % 65535 for v in lw]) + "\n" + table_fun("REF", [v % 65535 for v in ref])
    s += "\n(declare-const y (_ BitVec 16))\n(assert (not (= (LW y) (REF y))))\n(check-sat)\n"
    return dict(name="T5_log_walsh", desc="LOG_WALSH[y] = Walsh-Hadamard transform of LOG (LOG[0]:=0) modulo 65535 for every y (reference transform computed by the oracle; representatives 0/65535 identified)",
                smt=s, vars=["y"], tables=["log_walsh"])


def table_queries(ctx):
    """descriptors only (cheap); SMT text is built in run_queries"""
    import random
    rnd = random.Random(ctx.seed)
    qs = [("exp", None), ("log", None), ("twin", None), ("walsh", None)] + [("skew", d) for d in range(16)]
    cols = [(t, i) for t in range(4) for i in range(1, 16)]
    if ctx.tier == "quick":
        cols = rnd.sample(cols, 4)
    qs += [("mul", c) for c in cols]
    return qs


def build(ctx, q):
    kind, arg = q
    if kind == "exp":
        return q_exp_successor(ctx)
    if kind == "log":
        return q_log_inverse(ctx)
    if kind == "twin":
        return q_log_inverse_twin(ctx)
    if kind == "walsh":
        return q_log_walsh(ctx)
    if kind == "skew":
        return q_skew(ctx, arg)
    return q_mul16(ctx, *arg)


def confirm(ctx, z):
    """re-evaluate definition vs dump at the model's index (python, native tables)"""
    try:
        vals = {k: int(v) for k, v in z.get("model", {}).items()}
        name = z["name"]
        if name.startswith("T4"):
            beta = vals["beta"]
            return (O.skew_def(beta) != ctx.table("skew")[beta - 1], f"SKEW[{beta - 1}] = {ctx.table('skew')[beta - 1]} but the definition gives {O.skew_def(beta)}")
        if name.startswith("T2"):
            m, t, i = vals["m"], z["t"], z["i"]
            want = O.lmul(i << (4 * t), O.lexp(m))
            got = ctx.table("mul16")[m * 64 + t * 16 + i]
            raw = ctx.table("mul128")
            lo, hi = raw[m * 128 + 16 * t + i], raw[m * 128 + 64 + 16 * t + i]
            bad = got != want or lo != (got & 255) or hi != (got >> 8)
            return (bad, f"MUL16[{m}][{t}][{i}] = {got} (definition {want}); MUL128 bytes lo={lo} hi={hi}")
        if name == "T1_exp_successor":
            e = vals["e"]
            exp = ctx.table("exp")
            bad = O.phi(exp[(e + 1) % 65536]) != O.gmul(O.phi(exp[e]), 2) or O.phi(exp[0]) != 1 or exp[65535] != exp[0]
            return (bad, f"EXP[{e}]={exp[e]}, EXP[{e + 1}]={exp[(e + 1) % 65536]}")
        if name == "T1_log_inverse":
            x = vals["x"]
            exp, log = ctx.table("exp"), ctx.table("log")
            bad = log[0] != 65535 or (x != 0 and (exp[log[x]] != x or log[x] >= 65535))
            return (bad, f"LOG[{x}]={log[x]}, EXP[LOG[x]]={exp[log[x]]}")
        if name == "T5_log_walsh":
            y = vals["y"]
            ref = int(O.walsh_log_table()[y])
            got = ctx.table("log_walsh")[y]
            return (got % 65535 != ref % 65535, f"LOG_WALSH[{y}] = {got} but the definition gives {ref}")
    except Exception as e:  # pragma: no cover
        return (False, f"confirmation failed: {e}")
    return (False, "no confirmation rule")


def run_one(ctx, q, timeout):
    z = build(ctx, q)
    os.makedirs(ZDIR, exist_ok=True)
    path = os.path.join(ZDIR, z["name"] + ".smt2")
    with open(path, "w") as f:
        f.write(z.pop("smt"))
    t0 = time.time()

    def z3run(p):
        try:
            r = subprocess.run([Z3, f"-T:{timeout}", p], stdout=subprocess.PIPE, stderr=subprocess.STDOUT, text=True, timeout=timeout + 30)
            return r.stdout
        except subprocess.TimeoutExpired:
            return "timeout"

    out = z3run(path)
    if out.strip().splitlines()[:1] == ["sat"] and "(error" not in out:
        # second run only to read the counterexample index
        with open(path, "a") as f:
            f.write("(get-value (" + " ".join(z["vars"]) + "))\n")
        out = z3run(path)
    z["solver_s"] = round(time.time() - t0, 1)
    z["solver"] = "z3 4.8.12 (QF_UFBV)"
    z["smt_file"] = path
    first = out.strip().splitlines()[0] if out.strip() else "no output"
    if "(error" in out:
        z["status"] = "error: " + out.strip()[:200]
    elif first == "unsat":
        z["status"] = "twin not refuted" if z.get("expect") == "sat" else "unsat"
    elif first == "sat":
        z["status"] = "sat"
        z["model"] = {m.group(1): str(int(m.group(2), 16)) for m in re.finditer(r"\((\w+) #x([0-9a-f]+)\)", out)}
        if z.get("expect") == "sat":
            z["status"] = "unsat" if z["model"] == z.get("expect_model") else "twin: wrong model"
            z["twin"] = True
        else:
            ok, summ = confirm(ctx, z)
            z["confirm"] = (lambda zz, ok=ok, summ=summ: (ok, summ))
    else:
        z["status"] = first[:100]
    print(f"  [z3] {z['status'][:20]:8s} {z['solver_s']:6.1f}s {z['name']}", flush=True)
    return z


def run_queries(ctx, tier):
    qs = table_queries(ctx)
    timeout = 600 if tier == "quick" else 1200
    with ThreadPoolExecutor(max_workers=int(os.environ.get("VERIF_ZJOBS", "6"))) as ex:
        return list(ex.map(lambda q: run_one(ctx, q, timeout), qs))
