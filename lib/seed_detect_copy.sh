#!/bin/bash
# seed_detect_copy.sh <worktree with the seeded change applied> <property> [check.py args]
# Investigation aid: runs the property's quick tier from a private COPY of /verif whose crates point
# at the worktree instead of /repo, so /repo (and checks running against it) are not disturbed.
# (The recorded confirmation of a seed is still done with seed_detect.sh against /repo itself.)
wt=$(realpath $1); prop=$2; shift 2
c=/tmp/vcopy_$(basename $wt)
mkdir -p $c
rsync -a --delete --exclude build --exclude .git --exclude evidence --exclude replays --exclude 'harness/target' --exclude 'native/target' /verif/ $c/
sed -i "s|path = \"/repo\"|path = \"$wt\"|" $c/harness/Cargo.toml $c/native/Cargo.toml
sed -i "s|\"/repo/src/engine/engine_neon.rs\"|\"$wt/src/engine/engine_neon.rs\"|" $c/lib/gen.py
sed -i "s|\"/repo/\" not in f\[\"location\"\] and \"repo/src\" not in f\[\"location\"\]|\"$(basename $wt)/src\" not in f[\"location\"]|" $c/check.py
cp $wt/Cargo.lock $c/harness/Cargo.lock 2>/dev/null
cd $c && ./check.py $prop --tier quick --no-evidence "$@" > $c/detect_$prop.log 2>&1
rc=$?
echo "$(basename $wt) $prop exit=$rc $(grep -c '^VIOLATION' $c/detect_$prop.log) violations; $(tail -1 $c/detect_$prop.log)"
