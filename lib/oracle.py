"""Independent GF(2^16) oracle.

Built from the two published constants only (field polynomial 0x1002D and the
16 Cantor-basis words).  Nothing is imported from the crate: no tables, no
FFT.  All "label" arguments are 16-bit symbols as they appear in shards
(Cantor-basis representation); phi maps a label to the field element in the
polynomial basis.
"""
from functools import lru_cache

POLY = 0x1002D
CANTOR = [0x0001, 0xACCA, 0x3C0E, 0x163E, 0xC582, 0xED2E, 0x914C, 0x4012,
          0x6C98, 0x10D8, 0x6A72, 0xB900, 0xFDB8, 0xFB34, 0xFF38, 0x991E]
ORDER = 65536
MOD = 65535


def _clmul_mod(a, b):
    r = 0
    while b:
        if b & 1:
            r ^= a
        b >>= 1
        a <<= 1
        if a & 0x10000:
            a ^= POLY
    return r


# own exp/log of the generator x (=2) in the polynomial basis
_EXP = [0] * (2 * MOD)
_LOG = [0] * ORDER
_s = 1
for _e in range(MOD):
    _EXP[_e] = _s
    _LOG[_s] = _e
    _s <<= 1
    if _s & 0x10000:
        _s ^= POLY
assert _s == 1, "x is not primitive for 0x1002D"
for _e in range(MOD, 2 * MOD):
    _EXP[_e] = _EXP[_e - MOD]
assert all(_clmul_mod(_EXP[e], 2) == _EXP[e + 1] for e in range(0, 70000, 997))


def gmul(a, b):
    """product in the polynomial basis"""
    if a == 0 or b == 0:
        return 0
    return _EXP[_LOG[a] + _LOG[b]]


def ginv(a):
    assert a != 0
    return _EXP[(MOD - _LOG[a]) % MOD]


def gdiv(a, b):
    return gmul(a, ginv(b))


# phi: label -> field element
_PHI = [0] * ORDER
for _b in range(16):
    _w = 1 << _b
    for _j in range(_w):
        _PHI[_j + _w] = _PHI[_j] ^ CANTOR[_b]
_PHI_INV = [0] * ORDER
for _v, _f in enumerate(_PHI):
    _PHI_INV[_f] = _v
assert sorted(_PHI) == list(range(ORDER)), "Cantor words are not a basis"


def phi(v):
    return _PHI[v]


def phi_inv(f):
    return _PHI_INV[f]


def lmul(a, b):
    """product of two labels, as a label"""
    return _PHI_INV[gmul(_PHI[a], _PHI[b])]


def llog(v):
    """discrete log (base x) of the element a label denotes; v != 0"""
    assert v != 0
    return _LOG[_PHI[v]]


def lexp(e):
    """label of x^e"""
    return _PHI_INV[_EXP[e % MOD]]


def mulc_words(c_label):
    """the 16 labels c*2^b (label-domain): product with a symbolic x is the
    XOR of the words selected by the bits of x (phi is GF(2)-linear)."""
    return [lmul(c_label, 1 << b) for b in range(16)]


def lin_apply(words, x):
    r = 0
    for b in range(16):
        if (x >> b) & 1:
            r ^= words[b]
    return r


# ---------------------------------------------------------------------------
# subspace polynomials, LCH basis


@lru_cache(maxsize=None)
def _s_at(d, x):
    """s_d(x) = prod_{v < 2^d} (phi(x) + phi(v)) in the field"""
    r = 1
    fx = _PHI[x]
    for v in range(1 << d):
        r = gmul(r, fx ^ _PHI[v])
        if r == 0:
            return 0
    return r


def s_hat(d, x):
    """normalised subspace polynomial s_d(x)/s_d(2^d) (field element)"""
    return gdiv(_s_at(d, x), _s_at(d, 1 << d))


@lru_cache(maxsize=None)
def lch_basis(k, x):
    """X_k(x) = prod_{b in bits(k)} s_hat_b(x) (field element)"""
    r = 1
    b = 0
    while k >> b:
        if (k >> b) & 1:
            r = gmul(r, s_hat(b, x))
        b += 1
    return r


def fft_matrix(size, delta):
    """F[i][k] as labels: out[i] = XOR_k F[i][k]*in[k] (label-domain product)
    -- evaluation of sum_k in[k] X_k at the points delta+i."""
    return [[phi_inv(lch_basis(k, delta ^ i)) for k in range(size)] for i in range(size)]


def mat_inv(m):
    """inverse of a square matrix of labels (label-domain arithmetic)"""
    n = len(m)
    a = [[_PHI[x] for x in row] + [1 if i == j else 0 for j in range(n)] for i, row in enumerate(m)]
    for c in range(n):
        p = next(r for r in range(c, n) if a[r][c])
        a[c], a[p] = a[p], a[c]
        iv = ginv(a[c][c])
        a[c] = [gmul(x, iv) for x in a[c]]
        for r in range(n):
            if r != c and a[r][c]:
                f = a[r][c]
                a[r] = [x ^ gmul(f, y) for x, y in zip(a[r], a[c])]
    return [[_PHI_INV[x] for x in row[n:]] for row in a]


def ifft_matrix(size, delta):
    return mat_inv(fft_matrix(size, delta))


# ---------------------------------------------------------------------------
# C02: closed-form scaled Cauchy generator


def _npow2(x):
    p = 1
    while p < x:
        p <<= 1
    return p


def _W(m):
    r = 1
    for v in range(1, m):
        r = gmul(r, _PHI[v])
    return r


def generator(rate, k, r):
    """G[j][i] as labels, j in 0..r, i in 0..k (formula of property C02)."""
    if rate == "high":
        m = _npow2(r)
        return [[phi_inv(gdiv(_s_at(_log2(m), m + i), gmul(_W(m), _PHI[j ^ (m + i)])))
                 for i in range(k)] for j in range(r)]
    m = _npow2(k)
    return [[phi_inv(gdiv(_s_at(_log2(m), m + j), gmul(_W(m), _PHI[(m + j) ^ i])))
             for i in range(k)] for j in range(r)]


def _log2(m):
    assert m & (m - 1) == 0
    return m.bit_length() - 1


def use_high_rate(k, r):
    a, b = _npow2(k), _npow2(r)
    return a > b or (a == b and k <= r)


def encode_symbols(rate, k, r, syms):
    if rate == "default":
        rate = "high" if use_high_rate(k, r) else "low"
    g = generator(rate, k, r)
    out = []
    for j in range(r):
        acc = 0
        for i in range(k):
            acc ^= lmul(g[j][i], syms[i])
        out.append(acc)
    return out


# ---------------------------------------------------------------------------
# eval_poly contract


def locator_log(x, marked):
    """sum over marked j != x of LOG[x xor j] mod 65535 (canonical 0..65534)"""
    t = 0
    for j in marked:
        if j != x:
            t += llog(x ^ j)
    return t % MOD


def skew_def(beta):
    """SKEW[beta-1] = LOG[s_hat_d(beta xor 2^d)], d = trailing zeros of beta;
    65535 when that value is zero."""
    d = (beta & -beta).bit_length() - 1
    v = s_hat(d, beta ^ (1 << d))
    return MOD if v == 0 else _LOG[v]


_WALSH = None


def walsh_log_table():
    """Walsh-Hadamard transform (mod 65535) of LOG with LOG[0]:=0, by definition
    W[y] = sum_x (-1)^{popcount(x&y)} L[x]; plain butterflies, pure Python."""
    global _WALSH
    if _WALSH is None:
        a = [0] + [llog(v) for v in range(1, ORDER)]
        h = 1
        while h < ORDER:
            for base in range(0, ORDER, 2 * h):
                for i in range(base, base + h):
                    x, y = a[i], a[i + h]
                    a[i] = (x + y) % MOD
                    a[i + h] = (x - y) % MOD
            h *= 2
        _WALSH = a
    return _WALSH
