#!/bin/bash
# runs the thorough tier of the given properties one after the other; summary in thorough_summary.txt
cd "$(dirname "$0")/.."
./setup.sh > /dev/null 2>&1
: > thorough_summary.txt
for p in "$@"; do
  t0=$(date +%s)
  ./check.py $p --tier thorough --no-evidence > thorough_$p.log 2>&1
  rc=$?
  echo "$p exit=$rc $(( $(date +%s) - t0 ))s $(tail -1 thorough_$p.log)" >> thorough_summary.txt
  grep -E 'INCONCLUSIVE|VIOLATION' thorough_$p.log | head -40 >> thorough_summary.txt
done
echo DONE >> thorough_summary.txt
