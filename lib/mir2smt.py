"""MIR -> SMT-LIB2 for the loop-free integer functions behind C08/C09.

`cargo +nightly rustc -- -Zunpretty=mir -C overflow-checks=on` is run on a
scratch COPY of /repo's current working tree (so the nightly never writes into
/repo), the bodies of `use_high_rate`, `HighRate::supports` and
`LowRate::supports` are parsed, executed symbolically over (_ BitVec 64) along
their (acyclic) control-flow graph, and the negated specification is given to
z3 and cvc5.  `unsat` from both = second, independent verdict (the first is
Kani's).  A `sat` model is replayed against the REAL function through the
native companion; if the real function agrees with the specification there,
the translator is wrong (inconclusive), otherwise it is a violation.

Only the MIR shapes these functions use are supported; anything else raises
`Unsupported` and the query is reported inconclusive.
"""
import os
import re
import shutil
import subprocess
import time

import runner

WORK = os.path.join(runner.BUILD, "mir")


class Unsupported(Exception):
    pass


def dump_mir():
    src = os.path.join(WORK, "repo")
    os.makedirs(WORK, exist_ok=True)
    if os.path.exists(src):
        shutil.rmtree(src)
    shutil.copytree(os.environ.get("VERIF_MIR_REPO", "/repo"), src, ignore=shutil.ignore_patterns("target", ".git"))
    t0 = time.time()
    r = subprocess.run(["cargo", "+nightly", "rustc", "--offline", "--lib", "--target-dir", os.path.join(WORK, "target"), "--",
                        "-Zunpretty=mir", "-C", "debug-assertions=off", "-C", "overflow-checks=on"],
                       cwd=src, stdout=subprocess.PIPE, stderr=subprocess.PIPE, text=True, env=runner.ENV)
    if r.returncode != 0 or "fn " not in r.stdout:
        raise Unsupported("MIR dump failed: " + r.stderr[-500:])
    return r.stdout, round(time.time() - t0, 1)


def extract(mir, header_regex):
    m = re.search(header_regex + r"[^\n]*\{\n", mir)
    if not m:
        raise Unsupported("function not found: " + header_regex)
    start = m.start()
    end = mir.index("\n}\n", start) + 3
    return mir[start:end]


def bv(n):
    return f"(_ bv{n} 64)"


NPOW2 = "(define-fun npow2 ((x (_ BitVec 64))) (_ BitVec 64)\n  " + "".join(
    f"(ite (bvule x {bv(1 << i)}) {bv(1 << i)} " for i in range(64)) + bv(0) + ")" * 64 + ")\n"


class Fn:
    """symbolic execution of one parsed MIR body"""

    def __init__(self, text, consts):
        self.consts = consts
        self.blocks = {}
        for m in re.finditer(r"    (bb\d+): \{\n(.*?)\n    \}", text, re.S):
            self.blocks[m.group(1)] = [l.strip() for l in m.group(2).split("\n") if l.strip()]
        if not self.blocks:
            raise Unsupported("no basic blocks")
        self.results = []   # (path condition, kind, payload) kind in ok_true/ok_false/err/bool/panic

    # ---- operands ------------------------------------------------------
    def operand(self, env, s):
        s = s.strip()
        s = re.sub(r"^(copy|move) ", "", s)
        s = re.sub(r" as usize \(IntToInt\)$", "", s)
        if s.startswith("const "):
            c = s[6:]
            m = re.match(r"(\d+)_u(?:size|16|32|64)$", c)
            if m:
                return bv(int(m.group(1)))
            if c in ("true", "false"):
                return c
            if c in self.consts:
                return bv(self.consts[c])
            raise Unsupported("constant " + c)
        m = re.match(r"\((_\d+)\.(\d): \w+\)$", s)
        if m:
            v = env.get(m.group(1))
            if not isinstance(v, tuple):
                raise Unsupported("field of non-tuple " + s)
            return v[int(m.group(2))]
        if s in env:
            return env[s]
        raise Unsupported("operand " + s)

    # ---- statements ----------------------------------------------------
    def assign(self, env, lhs, rhs):
        m = re.match(r"(Gt|Lt|Le|Ge|Eq|Ne)\((.*), (.*)\)$", rhs)
        if m:
            op = {"Gt": "bvugt", "Lt": "bvult", "Le": "bvule", "Ge": "bvuge"}.get(m.group(1))
            a, b = self.operand(env, m.group(2)), self.operand(env, m.group(3))
            if op:
                env[lhs] = f"({op} {a} {b})"
            elif m.group(1) == "Eq":
                env[lhs] = f"(= {a} {b})"
            else:
                env[lhs] = f"(not (= {a} {b}))"
            return
        m = re.match(r"AddWithOverflow\((.*), (.*)\)$", rhs)
        if m:
            a, b = self.operand(env, m.group(1)), self.operand(env, m.group(2))
            env[lhs] = (f"(bvadd {a} {b})", f"(bvult (bvadd {a} {b}) {a})")
            return
        m = re.match(r"&(_\d+)$", rhs)
        if m:
            env[lhs] = ("ref", m.group(1))
            return
        m = re.match(r"discriminant\((_\d+)\)$", rhs)
        if m:
            env[lhs] = ("disc", env[m.group(1)])
            return
        m = re.match(r"Error::UnsupportedShardCount \{ original_count: (.*), recovery_count: (.*) \}$", rhs)
        if m:
            env[lhs] = ("error", self.operand(env, m.group(1)), self.operand(env, m.group(2)))
            return
        m = re.match(r"Result::<bool, Error>::(Ok|Err)\((.*)\)$", rhs)
        if m:
            if m.group(1) == "Ok":
                env[lhs] = ("ok", self.operand(env, m.group(2)))
            else:
                env[lhs] = ("err", self.operand(env, m.group(2)))
            return
        env[lhs] = self.operand(env, rhs)

    def call(self, env, lhs, fn, args):
        a = [self.operand(env, x) for x in args]
        if "next_power_of_two" in fn:
            # Rust: panics (overflow checks on) / wraps to 0 when the result does not fit
            env[lhs] = f"(npow2 {a[0]})"
            return f"(bvugt {a[0]} {bv(1 << 63)})"   # panic condition
        if fn.startswith("std::cmp::min"):
            env[lhs] = f"(ite (bvule {a[0]} {a[1]}) {a[0]} {a[1]})"
            return None
        if fn.startswith("std::cmp::max"):
            env[lhs] = f"(ite (bvuge {a[0]} {a[1]}) {a[0]} {a[1]})"
            return None
        if fn.startswith("<usize as Ord>::cmp"):
            x = env[a[0][1]] if isinstance(a[0], tuple) else a[0]
            y = env[a[1][1]] if isinstance(a[1], tuple) else a[1]
            env[lhs] = ("ordering", x, y)
            return None
        if "use_high_rate" in fn:
            raise Unsupported("nested call " + fn)
        raise Unsupported("call " + fn)

    # ---- blocks --------------------------------------------------------
    def run(self, bb, env, pc, depth=0):
        if depth > 64:
            raise Unsupported("CFG too deep (loop?)")
        env = dict(env)
        for line in self.blocks[bb]:
            line = line.rstrip(";")
            if line.startswith(("StorageLive", "StorageDead", "nop", "FakeRead", "PlaceMention", "debug ")):
                continue
            m = re.match(r"goto -> (bb\d+)$", line)
            if m:
                return self.run(m.group(1), env, pc, depth + 1)
            if line == "return":
                self.results.append((pc, env.get("_0")))
                return
            if line == "unreachable":
                self.results.append((pc, ("unreachable",)))
                return
            m = re.match(r"switchInt\((.*)\) -> \[(.*)\]$", line)
            if m:
                d = self.operand(env, m.group(1))
                arms = [x.strip() for x in m.group(2).split(",")]
                taken = []
                for arm in arms:
                    k, tgt = [x.strip() for x in arm.split(":")]
                    if k == "otherwise":
                        cond = "(and " + " ".join(f"(not {c})" for c in taken) + ")" if taken else "true"
                    else:
                        cond = self.switch_cond(d, int(k))
                        taken.append(cond)
                    self.run(tgt, env, pc + [cond], depth + 1)
                return
            m = re.match(r"assert\(!(.*), \".*\) -> \[success: (bb\d+), unwind continue\]$", line)
            if m:
                c = self.operand(env, m.group(1))
                self.results.append((pc + [c], ("panic",)))
                return self.run(m.group(2), env, pc + [f"(not {c})"], depth + 1)
            m = re.match(r"(_\d+) = (.*?)\((.*)\) -> \[return: (bb\d+), unwind continue\]$", line)
            if m and not re.match(r"(Gt|Lt|Le|Ge|Eq|Ne|AddWithOverflow|discriminant)$", m.group(2)):
                pan = self.call(env, m.group(1), m.group(2), self.split_args(m.group(3)))
                if pan:
                    self.results.append((pc + [pan], ("panic",)))
                    pc = pc + [f"(not {pan})"]
                return self.run(m.group(4), env, pc, depth + 1)
            m = re.match(r"(_\d+) = (.*)$", line)
            if m:
                self.assign(env, m.group(1), m.group(2))
                continue
            raise Unsupported("statement " + line)
        raise Unsupported("block without terminator " + bb)

    @staticmethod
    def split_args(s):
        out, depth, cur = [], 0, ""
        for ch in s:
            if ch == "," and depth == 0:
                out.append(cur)
                cur = ""
            else:
                depth += ch in "(<"
                depth -= ch in ")>"
                cur += ch
        if cur.strip():
            out.append(cur)
        return out

    def switch_cond(self, d, k):
        if isinstance(d, tuple) and d[0] == "disc":
            v = d[1]
            if isinstance(v, tuple) and v[0] == "ordering":
                x, y = v[1], v[2]
                return {255: f"(bvult {x} {y})", 0: f"(= {x} {y})", 1: f"(bvugt {x} {y})"}[k]
            raise Unsupported("discriminant of " + str(v)[:40])
        if d in ("true", "false") or d.startswith("("):
            # bool scrutinee: 0 = false
            return f"(not {d})" if k == 0 else d
        raise Unsupported("switchInt on " + str(d)[:40])


def summarize(fn):
    """-> (panic, is_ok, value, err_o, err_r) SMT expressions over o, r"""
    def cond(pc):
        return "(and " + " ".join(pc) + ")" if pc else "true"

    panic = "false"
    is_ok = "false"
    val = "false"
    err_ok = "true"
    for pc, res in fn.results:
        c = cond(pc)
        if res is None:
            raise Unsupported("path without result")
        if isinstance(res, tuple) and res[0] == "panic":
            panic = f"(or {panic} {c})"
        elif isinstance(res, tuple) and res[0] == "unreachable":
            panic = f"(or {panic} {c})"
        elif isinstance(res, tuple) and res[0] == "ok":
            is_ok = f"(or {is_ok} {c})"
            val = f"(or {val} (and {c} {res[1]}))"
        elif isinstance(res, tuple) and res[0] == "err":
            e = res[1]
            err_ok = f"(and {err_ok} (=> {c} (and (= {e[1]} o) (= {e[2]} r))))"
        else:
            # plain bool function: treat as Ok(value)
            is_ok = f"(or {is_ok} {c})"
            val = f"(or {val} (and {c} {res}))"
    return panic, is_ok, val, err_ok


def envelope_smt(side):
    ds = []
    for n in range(17):
        p, q = 1 << n, 65536 - (1 << n)
        if side != 2:
            ds.append(f"(and (bvule r {bv(p)}) (bvule o {bv(q)}))")
        if side != 1:
            ds.append(f"(and (bvule o {bv(p)}) (bvule r {bv(q)}))")
    return f"(and (bvuge o {bv(1)}) (bvuge r {bv(1)}) (or " + " ".join(ds) + "))"


RULE = "(or (bvugt (npow2 o) (npow2 r)) (and (= (npow2 o) (npow2 r)) (bvule o r)))"


def build_queries(mir):
    consts = {"engine::GF_ORDER": 65536, "engine::GF_MODULUS": 65535, "GF_ORDER": 65536, "GF_MODULUS": 65535}
    env0 = {"_1": "o", "_2": "r"}
    out = []
    specs = [
        ("use_high_rate", r"fn use_high_rate\(", 0, True),
        ("HighRate_supports", r"fn rate_high::<impl at src/rate/rate_high\.rs:[\d: ]+>::supports\(", 1, False),
        ("LowRate_supports", r"fn rate_low::<impl at src/rate/rate_low\.rs:[\d: ]+>::supports\(", 2, False),
    ]
    for name, rx, side, is_result in specs:
        body = extract(mir, rx)
        f = Fn(body, consts)
        f.run("bb0", env0, [])
        panic, is_ok, val, err_ok = summarize(f)
        env = envelope_smt(side)
        if is_result:
            good = f"(and (not {panic}) (= {is_ok} {env}) (=> {is_ok} (= {val} {RULE})) {err_ok})"
        else:
            good = f"(and (not {panic}) {is_ok} (= {val} {env}))"
        smt = ("(set-logic QF_BV)\n" + NPOW2 + "(declare-const o (_ BitVec 64))\n(declare-const r (_ BitVec 64))\n"
               + f"(assert (not {good}))\n(check-sat)\n")
        out.append(dict(name=f"MIR_{name}", smt=smt, side=side, is_result=is_result, paths=len(f.results), blocks=len(f.blocks),
                        desc=f"MIR of {name} (nightly -Zunpretty=mir, overflow checks on) executed symbolically over 64-bit vectors: no panic path is feasible and the result equals the README envelope"
                        + (" and the selection rule, Err fields truthful" if is_result else "") + " for all 2^128 argument pairs"))
    return out


def solve(q, timeout=300):
    os.makedirs(WORK, exist_ok=True)
    path = os.path.join(WORK, q["name"] + ".smt2")
    with open(path, "w") as f:
        f.write(q["smt"])
    verdicts = {}
    for solver, cmd in (("z3", ["/usr/bin/z3", f"-T:{timeout}", path]), ("cvc5", ["cvc5", "--lang", "smt2", f"--tlimit={timeout * 1000}", path])):
        t0 = time.time()
        try:
            r = subprocess.run(cmd, stdout=subprocess.PIPE, stderr=subprocess.STDOUT, text=True, timeout=timeout + 30)
            out = r.stdout.strip()
        except subprocess.TimeoutExpired:
            out = "timeout"
        first = out.splitlines()[0] if out else "no output"
        verdicts[solver] = ("error: " + out[:150]) if "(error" in out else first
        q[f"{solver}_s"] = round(time.time() - t0, 2)
    q["verdicts"] = verdicts
    q["smt_file"] = path
    return verdicts


def model_of(q):
    path = q["smt_file"]
    with open(path, "a") as f:
        f.write("(get-value (o r))\n")
    r = subprocess.run(["/usr/bin/z3", "-T:300", path], stdout=subprocess.PIPE, stderr=subprocess.STDOUT, text=True)
    vals = re.findall(r"\((o|r) #x([0-9a-f]+)\)", r.stdout)
    return {k: int(v, 16) for k, v in vals}


def run(ctx):
    """-> list of z-result dicts (same shape as zcheck results)"""
    results = []
    try:
        mir, dump_s = dump_mir()
        queries = build_queries(mir)
    except Unsupported as e:
        return [dict(name="MIR_translation", status=f"unsupported MIR shape: {e}", desc="MIR->SMT second verdict", solver_s=0)]
    for q in queries:
        v = solve(q)
        z = {k: q[k] for k in ("name", "desc", "paths", "blocks", "verdicts", "z3_s", "cvc5_s", "smt_file")}
        z["solver"] = "z3 4.8.12 + cvc5 1.0 (QF_BV)"
        z["solver_s"] = round(q["z3_s"] + q["cvc5_s"], 2)
        z["mir_dump_s"] = dump_s
        vs = set(v.values())
        if vs == {"unsat"}:
            z["status"] = "unsat"
        elif "sat" in vs:
            z["status"] = "sat"
            model = model_of(q)
            z["model"] = {k: str(x) for k, x in model.items()}
            ok, summ = confirm(ctx, q, model)
            z["confirm"] = (lambda zz, ok=ok, summ=summ: (ok, summ))
        else:
            z["status"] = "solvers disagree or failed: " + str(v)
        print(f"  [mir] {z['status'][:12]:12s} {z['solver_s']:6.1f}s {z['name']} ({z['paths']} paths) {v}", flush=True)
        results.append(z)
    return results


def confirm(ctx, q, model):
    """ask the REAL function (native companion) at the model's arguments"""
    o, r = model.get("o", 0), model.get("r", 0)
    which = {0: "default", 1: "high", 2: "low"}[q["side"]]
    resp = ctx.native.cmd(f"supports {which} {o} {r}")
    if not resp.startswith("ok "):
        return (False, f"native companion could not evaluate supports({o},{r}): {resp}")
    real = resp.split()[1] == "true"
    spec = o >= 1 and r >= 1 and any(
        (q["side"] != 2 and r <= (1 << n) and o <= 65536 - (1 << n)) or (q["side"] != 1 and o <= (1 << n) and r <= 65536 - (1 << n)) for n in range(17))
    if real != spec:
        return (True, f"{which}-rate supports({o},{r}) = {real} but the README envelope says {spec}")
    return (False, f"the real {which}-rate supports({o},{r}) = {real} agrees with the envelope: the MIR translation is wrong, not the code")
