#!/bin/bash
# runs every seeded change against the quick tier of the property it breaks (and related ones)
cd /verif
run() { d=seeded/$1; shift; for prop in "$@"; do /verif/lib/seed_detect.sh $d $prop >> /tmp/seed_results.txt 2>&1; done; }
: > /tmp/seed_results.txt
for s in "$@"; do
  echo "=== seed $s" >> /tmp/seed_results.txt
  case $s in
    C01) run C01 C01 ;;
    C02) run C02 C02 ;;
    C03) run C03 C03 ;;
    C04) run C04 C04 ;;
    C05) run C05 C05 ;;
    C06) run C06 C05 C06 ;;
    C07) run C07 C07 ;;
    C08) run C08 C08 ;;
    C09) run C09 C09 ;;
    C10) run C10 C10 ;;
    C11) run C11 C11 ;;
    C12) run C12 C12 ;;
    C13) run C13 C13 ;;
    C14) run C14 C14 ;;
    C15) run C15 C15 ;;
    C17) run C17 C17 ;;
    C01b) run C01b C12 C05 ;;
    C02b) run C02b C05 ;;
    C06b) run C06b C08 C06 ;;
    C07b) run C07b C07 ;;
    C12b) run C12b C12 ;;
    C15b) run C15b C15 ;;
    C17c) run C17c C17 ;;
    C09c) run C09c C09 ;;
    C04c) run C04c C04 ;;
    C05c) run C05c C05 ;;
    C11c) run C11c C11 ;;
    C10c) run C10c C10 ;;
    C13c) run C13c C13 ;;
    C12c) run C12c C12 ;;
  esac
done
echo DONE >> /tmp/seed_results.txt
