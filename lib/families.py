"""Enumerated harness families: one generated `h!` harness per member.

Each entry: dict(mod=<generated module>, name, unwind, body=<rust expr>,
plus free-form metadata the property plans use).  Pure functions of nothing
but constants, so that generation is deterministic.
"""
from itertools import product

N = "NullEngine"


def popcount(x):
    return bin(x).count("1")


# ------------------------------------------------------------------ C06
def c06_family():
    out = []
    codecs = [("high", "HighRateDecoder<N>", 2, 2), ("low", "LowRateDecoder<N>", 2, 2),
              ("high", "HighRateDecoder<N>", 3, 2), ("low", "LowRateDecoder<N>", 2, 3)]
    for tag, ty, k, r in codecs:
        for om in range(1 << k):
            for rm in range(1 << r):
                out.append(dict(mod="gen::c06g", name=f"dec_pattern_{tag}_{k}_{r}_o{om}_r{rm}", unwind=66, stub=(tag == "low"),
                                body=f"crate::c06::dec_pattern::<{ty}>({k}, {r}, {om}, {rm})",
                                kind="dec_pattern", codec=ty, k=k, r=r, om=om, rm=rm,
                                enough=popcount(om) + popcount(rm) >= k, complete=popcount(om) == k))
    encs = [("high", "HighRateEncoder<N>", 2, 1), ("low", "LowRateEncoder<N>", 1, 2),
            ("high", "HighRateEncoder<N>", 3, 2), ("low", "LowRateEncoder<N>", 2, 3)]
    for tag, ty, k, r in encs:
        for good in range(k + 1):
            for ln in (0, 1, 3, 4, 6):
                out.append(dict(mod="gen::c06g", name=f"enc_calls_{tag}_{k}_{r}_good{good}_len{ln}", unwind=66,
                                body=f"crate::c06::enc_calls::<{ty}>({k}, {r}, {good}, {ln})",
                                kind="enc_calls", codec=ty, k=k, r=r, good=good, len=ln))
    for side, ty, fn in (("enc", "DefaultRateEncoder<N>", "reset_class_enc"), ("dec", "DefaultRateDecoder<N>", "reset_class_dec")):
        for frm, (k, r) in (("high", (2, 1)), ("low", (1, 2))):
            for cls in range(11):
                # supported target configuration of the other rate, so that reset crosses rates
                k2, r2 = (1, 2) if frm == "high" else (2, 1)
                out.append(dict(mod="gen::c06g", name=f"reset_class_default_{side}_from_{frm}_c{cls}", unwind=20,
                                body=f"crate::c06::{fn}::<{ty}>({k}, {r}, {cls}, {k2}, {r2})",
                                kind="reset_class", codec=ty, k=k, r=r, cls=cls, side=side, frm=frm))
            for cls in (7, 9):
                # same-rate target
                out.append(dict(mod="gen::c06g", name=f"reset_class_default_{side}_from_{frm}_same_c{cls}", unwind=20,
                                body=f"crate::c06::{fn}::<{ty}>({k}, {r}, {cls}, {k}, {r})",
                                kind="reset_class", codec=ty, k=k, r=r, cls=cls, side=side, frm=frm))
    return out


# ------------------------------------------------------------------ configurations
def npow2(x):
    p = 1
    while p < x:
        p <<= 1
    return p


def work_sizes(rate, k, r):
    if rate == "high":
        chunk = npow2(r)
        return ((k + chunk - 1) // chunk * chunk, npow2(chunk + k))
    chunk = npow2(k)
    return ((r + chunk - 1) // chunk * chunk, npow2(chunk + r))


def b_cfg(limit=8):
    """(rate, k, r) with encoder and decoder work size <= limit"""
    out = []
    for rate in ("high", "low"):
        for k in range(1, limit):
            for r in range(1, limit):
                if max(work_sizes(rate, k, r)) <= limit:
                    out.append((rate, k, r))
    return out


ENC_TY = {"high": "HighRateEncoder", "low": "LowRateEncoder"}
DEC_TY = {"high": "HighRateDecoder", "low": "LowRateDecoder"}


# ------------------------------------------------------------------ C02 / C13 (rate layer over SpecEngine)
def c02_family():
    out = []
    for rate, k, r in b_cfg(16):
        small = max(work_sizes(rate, k, r)) <= 8
        ty = f"{ENC_TY[rate]}<SpecEngine>"
        for p in range(k):
            out.append(dict(mod="gen::c02g", name=f"enc_basis_{rate}_{k}_{r}_p{p}", unwind=66,
                            body=f"crate::c02::enc_basis::<{ty}>({k}, {r}, {p}, &crate::gen::gmat::G_{rate.upper()}_{k}_{r})",
                            kind="enc_basis", rate=rate, k=k, r=r, p=p, small=small))
        out.append(dict(mod="gen::c02g", name=f"enc_kat_{rate}_{k}_{r}", unwind=66,
                        body=f"crate::c02::enc_kat::<{ty}>({k}, {r}, &crate::gen::gmat::KAT_IN_{rate.upper()}_{k}_{r}, &crate::gen::gmat::KAT_OUT_{rate.upper()}_{k}_{r})",
                        kind="enc_kat", rate=rate, k=k, r=r, small=small))
        if small:
            out.append(dict(mod="gen::c02g", name=f"enc_additive_{rate}_{k}_{r}", unwind=66,
                            body=f"crate::c02::enc_additive::<{ty}, {k}, {r}>()",
                            kind="enc_additive", rate=rate, k=k, r=r, small=small))
    for rate, k, r in (("high", 3, 2), ("low", 2, 3)):
        out.append(dict(mod="gen::c02g", name=f"enc_basis_false_twin_{rate}_{k}_{r}", unwind=66,
                        body=f"crate::c02::enc_basis_false_twin::<{ENC_TY[rate]}<SpecEngine>>({k}, {r}, &crate::gen::gmat::G_{rate.upper()}_{k}_{r})",
                        kind="false_twin", rate=rate, k=k, r=r, small=True))
    return out


# ------------------------------------------------------------------ C01 (decoders over SpecEngine)
def patterns(k, r):
    """(om, rm) with at least k shards given and at least one original missing"""
    out = []
    for om in range(1 << k):
        if om == (1 << k) - 1:
            continue
        for rm in range(1 << r):
            if popcount(om) + popcount(rm) >= k:
                out.append((om, rm))
    return out


def max_loss_patterns(k, r):
    """for larger configs: all originals lost / first r lost / last r lost / alternating, with exactly k shards"""
    pats = set()
    full_o = (1 << k) - 1
    full_r = (1 << r) - 1
    if r >= k:
        pats.add((0, (1 << k) - 1))
        pats.add((0, full_r ^ ((1 << (r - k)) - 1)))
    lose = min(r, k)
    pats.add((full_o & ~((1 << lose) - 1), (1 << lose) - 1))
    pats.add((full_o >> lose, full_r if lose == r else (1 << lose) - 1))
    alt = 0
    cnt = 0
    for i in range(0, k, 2):
        if cnt < lose:
            alt |= 1 << i
            cnt += 1
    pats.add((full_o & ~alt, (1 << cnt) - 1))
    pats.add((full_o & ~1, full_r))           # surplus: one lost, all recovery given
    return sorted(p for p in pats if popcount(p[0]) + popcount(p[1]) >= k and p[0] != full_o)


def c01_family():
    out = []
    for rate, k, r in b_cfg(8):
        ty = f"{DEC_TY[rate]}<SpecEngine>"
        G = f"&crate::gen::gmat::G_{rate.upper()}_{k}_{r}"
        pats = patterns(k, r) if k + r <= 5 else max_loss_patterns(k, r)
        for om, rm in pats:
            for p in range(k):
                out.append(dict(mod="gen::c01g", name=f"dec_basis_{rate}_{k}_{r}_o{om}_r{rm}_p{p}", unwind=66, stub=(rate == "low"),
                                body=f"crate::c01::dec_basis::<{ty}, {k}, {r}>({om}, {rm}, {p}, {G})",
                                kind="dec_basis", rate=rate, k=k, r=r, om=om, rm=rm, p=p, exhaustive_patterns=(k + r <= 5)))
        om, rm = pats[0]
        out.append(dict(mod="gen::c01g", name=f"dec_kat_{rate}_{k}_{r}_o{om}_r{rm}", unwind=66, stub=(rate == "low"),
                        body=f"crate::c01::dec_kat::<{ty}, {k}, {r}>({om}, {rm}, &crate::gen::gmat::KAT_IN_{rate.upper()}_{k}_{r}, &crate::gen::gmat::KAT_OUT_{rate.upper()}_{k}_{r})",
                        kind="dec_kat", rate=rate, k=k, r=r, om=om, rm=rm))
    return out


FAMILIES = {
    "c01g": c01_family,
    "c02g": c02_family,
    "c06g": c06_family,
}


def all_members():
    out = []
    for f in FAMILIES.values():
        out.extend(f())
    return out


def render(modname):
    members = FAMILIES[modname]()
    lines = ["// generated by lib/families.py\n", "#![allow(unused_imports)]\n", "use crate::{h, hf};\n", "use crate::model::*;\n",
             "use reed_solomon_simd::rate::*;\n", "type N = NullEngine;\n\n"]
    for m in members:
        mac = "hf" if m.get("stub") else "h"
        lines.append(f"{mac}!({m['name']}, {m['unwind']}, {m['body']});\n")
    return "".join(lines)
