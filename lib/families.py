"""Enumerated harness families: one generated `h!` harness per member.

Each entry: dict(mod=<generated module>, name, unwind, body=<rust expr>,
plus free-form metadata the property plans use).  Pure functions of nothing
but constants, so that generation is deterministic.
"""
from itertools import product

N = "NullEngine"


def popcount(x):
    return bin(x).count("1")


# ------------------------------------------------------------------ C06
def c06_family():
    out = []
    codecs = [("high", "HighRateDecoder<N>", 2, 2), ("low", "LowRateDecoder<N>", 2, 2),
              ("high", "HighRateDecoder<N>", 3, 2), ("low", "LowRateDecoder<N>", 2, 3)]
    for tag, ty, k, r in codecs:
        for om in range(1 << k):
            for rm in range(1 << r):
                out.append(dict(mod="gen::c06g", name=f"dec_pattern_{tag}_{k}_{r}_o{om}_r{rm}", unwind=66, stub=(tag == "low"),
                                body=f"crate::c06::dec_pattern::<{ty}>({k}, {r}, {om}, {rm})",
                                kind="dec_pattern", codec=ty, k=k, r=r, om=om, rm=rm,
                                enough=popcount(om) + popcount(rm) >= k, complete=popcount(om) == k))
    # states reached through a history: adds, then a valid reset (growing / shrinking / same size)
    for tag, ty, k1, r1, om, rm, k, r in (("high", "HighRateDecoder<N>", 3, 2, 0b001, 0b01, 4, 4), ("high", "HighRateDecoder<N>", 2, 2, 0b11, 0b11, 3, 2),
                                          ("high", "HighRateDecoder<N>", 4, 4, 0b1111, 0b0001, 2, 1), ("low", "LowRateDecoder<N>", 2, 3, 0b01, 0b101, 4, 4),
                                          ("low", "LowRateDecoder<N>", 2, 2, 0b10, 0b01, 2, 3), ("low", "LowRateDecoder<N>", 4, 4, 0b0110, 0b1000, 1, 2)):
        out.append(dict(mod="gen::c06g", name=f"dec_adds_after_reset_{tag}_{k1}_{r1}_o{om}_r{rm}_to_{k}_{r}", unwind=20,
                        body=f"crate::c06::dec_adds_after_reset::<{ty}>({k1}, {r1}, {om}, {rm}, {k}, {r})",
                        kind="adds_after_reset", codec=ty, k=k, r=r, a=(k1, r1, om, rm)))
    encs = [("high", "HighRateEncoder<N>", 2, 1), ("low", "LowRateEncoder<N>", 1, 2),
            ("high", "HighRateEncoder<N>", 3, 2), ("low", "LowRateEncoder<N>", 2, 3)]
    for tag, ty, k, r in encs:
        for good in range(k + 1):
            for ln in (0, 1, 3, 4, 6):
                out.append(dict(mod="gen::c06g", name=f"enc_calls_{tag}_{k}_{r}_good{good}_len{ln}", unwind=66,
                                body=f"crate::c06::enc_calls::<{ty}>({k}, {r}, {good}, {ln})",
                                kind="enc_calls", codec=ty, k=k, r=r, good=good, len=ln))
    for side, ty, fn in (("enc", "DefaultRateEncoder<N>", "reset_class_enc"), ("dec", "DefaultRateDecoder<N>", "reset_class_dec")):
        for frm, (k, r) in (("high", (2, 1)), ("low", (1, 2))):
            for cls in range(11):
                # supported target configuration of the other rate, so that reset crosses rates
                k2, r2 = (1, 2) if frm == "high" else (2, 1)
                out.append(dict(mod="gen::c06g", name=f"reset_class_default_{side}_from_{frm}_c{cls}", unwind=20,
                                body=f"crate::c06::{fn}::<{ty}>({k}, {r}, {cls}, {k2}, {r2})",
                                kind="reset_class", codec=ty, k=k, r=r, cls=cls, side=side, frm=frm))
            for cls in (7, 9):
                # same-rate target
                out.append(dict(mod="gen::c06g", name=f"reset_class_default_{side}_from_{frm}_same_c{cls}", unwind=20,
                                body=f"crate::c06::{fn}::<{ty}>({k}, {r}, {cls}, {k}, {r})",
                                kind="reset_class", codec=ty, k=k, r=r, cls=cls, side=side, frm=frm))
    return out


# ------------------------------------------------------------------ configurations
def npow2(x):
    p = 1
    while p < x:
        p <<= 1
    return p


def work_sizes(rate, k, r):
    if rate == "high":
        chunk = npow2(r)
        return ((k + chunk - 1) // chunk * chunk, npow2(chunk + k))
    chunk = npow2(k)
    return ((r + chunk - 1) // chunk * chunk, npow2(chunk + r))


def b_cfg(limit=8):
    """(rate, k, r) with encoder and decoder work size <= limit"""
    out = []
    for rate in ("high", "low"):
        for k in range(1, limit):
            for r in range(1, limit):
                if max(work_sizes(rate, k, r)) <= limit:
                    out.append((rate, k, r))
    return out


ENC_TY = {"high": "HighRateEncoder", "low": "LowRateEncoder"}
DEC_TY = {"high": "HighRateDecoder", "low": "LowRateDecoder"}


# ------------------------------------------------------------------ C02 / C13 (rate layer over SpecEngine)
def c02_family():
    out = []
    for rate, k, r in b_cfg(16):
        small = max(work_sizes(rate, k, r)) <= 8
        ty = f"{ENC_TY[rate]}<SpecEngine>"
        for p in (range(k) if small else sorted({0, k - 1})):
            out.append(dict(mod="gen::c02g", name=f"enc_basis_{rate}_{k}_{r}_p{p}", unwind=66,
                            body=f"crate::c02::enc_basis::<{ty}>({k}, {r}, {p}, &crate::gen::gmat::G_{rate.upper()}_{k}_{r})",
                            kind="enc_basis", rate=rate, k=k, r=r, p=p, small=small))
        out.append(dict(mod="gen::c02g", name=f"enc_kat_{rate}_{k}_{r}", unwind=66,
                        body=f"crate::c02::enc_kat::<{ty}>({k}, {r}, &crate::gen::gmat::KAT_IN_{rate.upper()}_{k}_{r}, &crate::gen::gmat::KAT_OUT_{rate.upper()}_{k}_{r})",
                        kind="enc_kat", rate=rate, k=k, r=r, small=small))
        # 3-run additivity over a chunk of size 4 on both transforms (high rate with 3-4 recovery shards,
        # low (3,4)): the SAT query does not finish within 1 h (measured); these configurations keep
        # their basis harnesses (C02) but have no additivity harness
        hard = (rate == "high" and r in (3, 4) and k <= 4) or (rate, k, r) == ("low", 3, 4)
        if small and not hard:
            out.append(dict(mod="gen::c02g", name=f"enc_additive_{rate}_{k}_{r}", unwind=66,
                            body=f"crate::c02::enc_additive::<{ty}, {k}, {r}>()",
                            kind="enc_additive", rate=rate, k=k, r=r, small=small))
    for rate, k, r in (("high", 3, 2), ("low", 2, 3)):
        out.append(dict(mod="gen::c02g", name=f"enc_basis_false_twin_{rate}_{k}_{r}", unwind=66,
                        body=f"crate::c02::enc_basis_false_twin::<{ENC_TY[rate]}<SpecEngine>>({k}, {r}, &crate::gen::gmat::G_{rate.upper()}_{k}_{r})",
                        kind="false_twin", rate=rate, k=k, r=r, small=True))
    return out


# ------------------------------------------------------------------ C01 (decoders over SpecEngine)
def patterns(k, r):
    """(om, rm) with at least k shards given and at least one original missing"""
    out = []
    for om in range(1 << k):
        if om == (1 << k) - 1:
            continue
        for rm in range(1 << r):
            if popcount(om) + popcount(rm) >= k:
                out.append((om, rm))
    return out


def max_loss_patterns(k, r):
    """for larger configs: all originals lost / first r lost / last r lost / alternating, with exactly k shards"""
    pats = set()
    full_o = (1 << k) - 1
    full_r = (1 << r) - 1
    if r >= k:
        pats.add((0, (1 << k) - 1))
        pats.add((0, full_r ^ ((1 << (r - k)) - 1)))
    lose = min(r, k)
    pats.add((full_o & ~((1 << lose) - 1), (1 << lose) - 1))
    pats.add((full_o >> lose, full_r if lose == r else (1 << lose) - 1))
    alt = 0
    cnt = 0
    for i in range(0, k, 2):
        if cnt < lose:
            alt |= 1 << i
            cnt += 1
    pats.add((full_o & ~alt, (1 << cnt) - 1))
    pats.add((full_o & ~1, full_r))           # surplus: one lost, all recovery given
    return sorted(p for p in pats if popcount(p[0]) + popcount(p[1]) >= k and p[0] != full_o)


def c01_family():
    out = []
    for rate, k, r in b_cfg(8):
        ty = f"{DEC_TY[rate]}<SpecEngine>"
        G = f"&crate::gen::gmat::G_{rate.upper()}_{k}_{r}"
        pats = patterns(k, r) if k + r <= 5 else max_loss_patterns(k, r)
        for om, rm in pats:
            for p in (range(k) if k + r <= 5 else sorted({0, k - 1})):
                out.append(dict(mod="gen::c01g", name=f"dec_basis_{rate}_{k}_{r}_o{om}_r{rm}_p{p}", unwind=66, stub=(rate == "low"),
                                body=f"crate::c01::dec_basis::<{ty}, {k}, {r}>({om}, {rm}, {p}, {G})",
                                kind="dec_basis", rate=rate, k=k, r=r, om=om, rm=rm, p=p, exhaustive_patterns=(k + r <= 5)))
        om, rm = pats[0]
        out.append(dict(mod="gen::c01g", name=f"dec_kat_{rate}_{k}_{r}_o{om}_r{rm}", unwind=66, stub=(rate == "low"),
                        body=f"crate::c01::dec_kat::<{ty}, {k}, {r}>({om}, {rm}, &crate::gen::gmat::KAT_IN_{rate.upper()}_{k}_{r}, &crate::gen::gmat::KAT_OUT_{rate.upper()}_{k}_{r})",
                        kind="dec_kat", rate=rate, k=k, r=r, om=om, rm=rm))
    for rate, k, r, om, rm in (("high", 2, 1, 0b10, 0b1), ("low", 1, 2, 0b0, 0b10), ("high", 2, 2, 0b00, 0b11), ("low", 2, 2, 0b00, 0b11),
                               ("high", 3, 2, 0b100, 0b11), ("low", 2, 3, 0b00, 0b101), ("high", 3, 2, 0b011, 0b10)):
        out.append(dict(mod="gen::c01g", name=f"dec_additive_{rate}_{k}_{r}_o{om}_r{rm}", unwind=66, stub=(rate == "low"),
                        body=f"crate::c01::dec_additive::<{DEC_TY[rate]}<SpecEngine>, {k}, {r}>({om}, {rm}, &crate::gen::gmat::G_{rate.upper()}_{k}_{r})",
                        kind="dec_additive", rate=rate, k=k, r=r, om=om, rm=rm))
    return out


# ------------------------------------------------------------------ C12
def c12_family():
    out = []
    for rate, k, r in (("high", 2, 2), ("low", 2, 2), ("high", 3, 1), ("low", 1, 3), ("high", 3, 2), ("low", 2, 3)):
        out.append(dict(mod="gen::c12g", name=f"enc_result_{rate}_{k}_{r}", unwind=66,
                        body=f"crate::c12::enc_result::<{ENC_TY[rate]}<N>>({k}, {r})", kind="enc_result", rate=rate, k=k, r=r))
    # (3,3): the first region's count is not a power of two, so there is a GAP between the two shard
    # regions of the working space and shard positions reach beyond original_count + recovery_count
    for rate, k, r in (("high", 2, 2), ("low", 2, 2), ("high", 3, 2), ("low", 2, 3), ("high", 3, 3), ("low", 3, 3)):
        for om in range(1 << k):
            for rm in range(1 << r):
                if popcount(om) + popcount(rm) < k:
                    continue
                # (3,3): exactly 3 shards, including the LAST shard of the second region (high: original 2,
                # low: recovery 2), whose work position is >= original_count + recovery_count
                if k + r == 6 and not (popcount(om) + popcount(rm) == 3 and ((om if rate == "high" else rm) >> 2 & 1)):
                    continue
                complete = om == (1 << k) - 1
                out.append(dict(mod="gen::c12g", name=f"dec_result_{rate}_{k}_{r}_o{om}_r{rm}", unwind=66, stub=(rate == "low" and not complete),
                                body=f"crate::c12::dec_result::<{DEC_TY[rate]}<N>>({k}, {r}, {om}, {rm})",
                                kind="dec_result", rate=rate, k=k, r=r, om=om, rm=rm, complete=complete))
    return out


# ------------------------------------------------------------------ C10
def envelope(k, r):
    return k >= 1 and r >= 1 and any((k <= (1 << n) and r <= 65536 - (1 << n)) or (r <= (1 << n) and k <= 65536 - (1 << n)) for n in range(17))


def c10_family():
    out = []
    dec = [
        # (k, r, original lengths, recovery lengths)
        # no recovery shards: the originals are validated through a ReedSolomonDecoder (no decode() call)
        (1, 1, [], []), (1, 1, [2], []), (1, 1, [2, 2], []), (1, 1, [2, 2, 2], []), (1, 1, [3], []), (1, 1, [0], []), (1, 1, [4], []),
        (2, 1, [2], []), (2, 1, [2, 2], []), (2, 1, [2, 4], []), (2, 1, [2, 2, 2], []), (2, 1, [4, 4], []), (2, 1, [4, 2, 4], []),
        (2, 2, [2, 2], []), (3, 2, [2, 2, 2], []), (3, 2, [2, 2], []), (1, 2, [], []), (1, 2, [4], []),
        # with recovery shards: only inputs rejected before decode() runs on the DefaultRate decoder
        # (invalid size of the first recovery shard, unsupported counts); everything else reaches
        # ReedSolomonDecoder::decode, whose body does not fit CBMC (> 15 min)
        (1, 1, [2], [0]), (1, 1, [2], [1]), (1, 1, [], [3]), (2, 1, [2, 2], [0]),
        (0, 1, [], []), (1, 0, [2], []), (65536, 1, [], [2]), (40000, 40000, [2], [2]),
    ]
    for k, r, lo, lr in dec:
        nm = f"oneshot_decode_{k}_{r}_o{'_'.join(map(str, lo)) or 'none'}_r{'_'.join(map(str, lr)) or 'none'}"
        out.append(dict(mod="gen::c10g", name=nm, unwind=10, body=f"crate::c10::oneshot_decode::<{len(lo)}, {len(lr)}>({k}, {r}, {'true' if envelope(k, r) else 'false'}, {lo}, {lr})",
                        kind="decode", k=k, r=r, lo=lo, lr=lr))
    # only inputs rejected before an encoder lives through `encode()`: anything that reaches
    # ReedSolomonEncoder::encode makes CBMC walk the DefaultRate encode body (> 25 min)
    enc = [(1, 1, []), (2, 2, []), (1, 1, [0]), (1, 1, [3]), (2, 1, [0, 2]), (0, 1, [2]), (1, 0, [2]), (40000, 40000, [2]), (65536, 1, [2])]
    for k, r, lo in enc:
        nm = f"oneshot_encode_{k}_{r}_o{'_'.join(map(str, lo)) or 'none'}"
        out.append(dict(mod="gen::c10g", name=nm, unwind=10, body=f"crate::c10::oneshot_encode::<{len(lo)}>({k}, {r}, {'true' if envelope(k, r) else 'false'}, {lo})",
                        kind="encode", k=k, r=r, lo=lo))
    return out


# ------------------------------------------------------------------ C07
def c07_family():
    out = []
    decs = [("high", "HighRateDecoder<N>", 2, 2, True), ("low", "LowRateDecoder<N>", 2, 2, True),
            ("dhigh", "DefaultRateDecoder<N>", 2, 1, False), ("dlow", "DefaultRateDecoder<N>", 1, 2, False),
            ("high32", "HighRateDecoder<N>", 3, 2, True), ("low23", "LowRateDecoder<N>", 2, 3, True)]
    for tag, ty, k, r, finish in decs:
        calls = [(0, 0), (1, 0), (2, 0), (3, 0)] + [(4, l) for l in (0, 1, 3, 4)] + [(5, l) for l in (0, 3)]
        if k >= 2 and finish:
            # (decode on a DefaultRate codec, even on its error path, makes CBMC walk the whole
            # decode body with non-constant counts: out of memory; dedicated codecs only)
            calls.append((6, 0))
        calls += [(7, c) for c in range(11)]
        for kind, arg in calls:
            if kind == 4 and k < 2:
                continue
            # finishing the round executes decode: only for dedicated codecs and only for some kinds (cost)
            fin = finish and kind in (2, 4, 6, 7) and arg in (0, 3, 9)
            out.append(dict(mod="gen::c07g", name=f"dec_failed_{tag}_{k}_{r}_k{kind}_a{arg}", unwind=66, stub=(fin and "low" in tag),
                            body=f"crate::c07::dec_failed_call::<{ty}>({k}, {r}, {kind}, {arg}, {'true' if fin else 'false'})",
                            kind="dec_failed", codec=ty, k=k, r=r, call=kind, arg=arg, finish=fin, tag=tag))
    encs = [("high", "HighRateEncoder<N>", 2, 1, True), ("low", "LowRateEncoder<N>", 2, 3, True),
            ("dhigh", "DefaultRateEncoder<N>", 2, 1, False), ("dlow", "DefaultRateEncoder<N>", 2, 3, False)]
    for tag, ty, k, r, finish in encs:
        calls = [(0, l) for l in (0, 1, 3, 4, 6)] + [(1, 0)] + ([(2, 0)] if finish else []) + [(3, c) for c in range(11)]
        for kind, arg in calls:
            fin = finish and kind != 1 and arg in (0, 3, 9)
            out.append(dict(mod="gen::c07g", name=f"enc_failed_{tag}_{k}_{r}_k{kind}_a{arg}", unwind=66,
                            body=f"crate::c07::enc_failed_call::<{ty}>({k}, {r}, {kind}, {arg}, {'true' if fin else 'false'})",
                            kind="enc_failed", codec=ty, k=k, r=r, call=kind, arg=arg, finish=fin, tag=tag))
    return out


# ------------------------------------------------------------------ C11
def c11_family():
    out = []
    for rate, k, r in (("high", 2, 2), ("low", 2, 2), ("high", 3, 2), ("low", 2, 3)):
        ty = f"{DEC_TY[rate]}<N>"
        # prefixes: empty, and every shape that puts the decoder just below / at / above the
        # "enough shards" threshold when the two further shards arrive (k-2, k-1, k shards given)
        prefixes = {(0, 0), (1, 0), (0, 1), (1 << (k - 1), 1 << (r - 1))}
        for po in range(1 << k):
            for pr in range(1 << r):
                n = popcount(po) + popcount(pr)
                if n in (k - 1, k) and popcount(po) < k and (po, pr) in {(po & -po | (po & (po - 1)), pr)}:
                    # keep it small: lowest-index shapes only
                    if po in (0, 1, (1 << (k - 1))) and pr in (0, 1, 3, (1 << (r - 1))):
                        prefixes.add((po, pr))
        prefixes = sorted(prefixes)
        for kinds in (0, 1, 2):
            for po, pr in prefixes:
                free_o = k - popcount(po)
                free_r = r - popcount(pr)
                if (kinds == 0 and free_o < 2) or (kinds == 2 and free_r < 2) or (kinds == 1 and (free_o < 1 or free_r < 1)):
                    continue
                out.append(dict(mod="gen::c11g", name=f"confluence_{rate}_{k}_{r}_kinds{kinds}_po{po}_pr{pr}", unwind=66,
                                body=f"crate::c11::confluence::<{ty}>({k}, {r}, {kinds}, {po}, {pr})",
                                kind="confluence", rate=rate, k=k, r=r, kinds=kinds, po=po, pr=pr))
    return out


# ------------------------------------------------------------------ C17
def c17_family():
    out = []
    cases = [
        # (from rate, k1, r1, sb1, to rate, k2, r2, sb2)
        ("high", 3, 2, 66, "high", 2, 1, 2), ("high", 2, 1, 2, "high", 3, 2, 66), ("high", 3, 2, 130, "high", 3, 2, 64),
        ("low", 2, 3, 66, "low", 1, 2, 2), ("low", 1, 2, 2, "low", 2, 3, 66), ("low", 2, 3, 64, "low", 2, 3, 64),
        ("high", 3, 2, 66, "low", 2, 3, 2), ("high", 3, 1, 2, "low", 1, 3, 2), ("low", 2, 3, 66, "high", 3, 2, 2), ("low", 1, 2, 2, "high", 3, 2, 66),
        ("high", 5, 2, 2, "low", 1, 2, 130), ("low", 2, 5, 2, "high", 2, 1, 130),
    ]
    for fr, k1, r1, s1, to, k2, r2, s2 in cases:
        same = fr == to
        for side in ("enc", "dec"):
            T1 = (ENC_TY if side == "enc" else DEC_TY)[fr] + "<N>"
            T2 = (ENC_TY if side == "enc" else DEC_TY)[to] + "<N>"
            conv = f"crate::c17::{fr}_id_{side}" if same else f"crate::c17::{fr}_to_{to}_{side}"
            out.append(dict(mod="gen::c17g", name=f"{side}_reuse_{fr}_{k1}_{r1}_{s1}_to_{to}_{k2}_{r2}_{s2}", unwind=66,
                            body=f"crate::c17::{side}_reuse::<{T1}, {T2}>({k1}, {r1}, {s1}, {k2}, {r2}, {s2}, {'true' if same else 'false'}, {conv})",
                            kind=side, fr=fr, to=to, a=(k1, r1, s1), b=(k2, r2, s2), same=same))
    # reset chains on one object: shrink, then grow again within the capacity held (seed C17c)
    chains = [
        ("high", [(5, 2, 130), (2, 1, 2), (3, 2, 66)]), ("high", [(3, 2, 130), (3, 2, 2), (3, 2, 64), (3, 2, 128)]),
        ("low", [(2, 5, 130), (1, 2, 2), (2, 3, 66)]), ("low", [(2, 3, 128), (2, 3, 2), (1, 3, 66), (2, 3, 128)]),
    ]
    for rate, cfgs in chains:
        for side in ("enc", "dec"):
            T = (ENC_TY if side == "enc" else DEC_TY)[rate] + "<N>"
            tag = "_".join(f"{a}x{b}x{c}" for a, b, c in cfgs)
            arr = ", ".join(f"({a}, {b}, {c})" for a, b, c in cfgs)
            out.append(dict(mod="gen::c17g", name=f"{side}_chain_{rate}_{tag}", unwind=66,
                            body=f"crate::c17::{side}_chain::<{T}>(&[{arr}])",
                            kind=side + "_chain", fr=rate, to=rate, cfgs=cfgs, same=True))
    return out


# ------------------------------------------------------------------ C09
def rule(k, r):
    a, b = npow2(k), npow2(r)
    return a > b or (a == b and k <= r)


def c09_family():
    out = []
    cfgs = [(1, 1), (2, 1), (1, 2), (2, 2), (3, 2), (2, 3), (3, 3), (4, 3), (3, 4), (5, 3), (3, 5), (4, 4), (5, 4), (4, 5), (7, 1), (1, 7), (6, 2), (2, 6), (9, 5), (5, 9), (8, 8), (12, 3)]
    for k, r in cfgs:
        for side in ("enc", "dec"):
            for sb in (2, 66):
                blocks = max(work_sizes("high" if rule(k, r) else "low", k, r)) * ((sb + 63) // 64)
                out.append(dict(mod="gen::c09g", name=f"default_new_{side}_{k}_{r}_{sb}", unwind=max(40, blocks + 4),
                                body=f"crate::c09::default_new_{side}({k}, {r}, {sb})", kind="new", side=side, k=k, r=r, sb=sb, high=rule(k, r)))
    resets = [((3, 2, 2), (2, 3, 2)), ((2, 3, 2), (3, 2, 2)), ((3, 2, 66), (2, 3, 2)), ((2, 3, 2), (2, 1, 66)), ((3, 2, 2), (4, 1, 2)), ((2, 3, 2), (1, 4, 2)),
              ((2, 2, 2), (3, 2, 2)), ((3, 2, 2), (2, 2, 2)), ((3, 3, 2), (4, 3, 2)), ((1, 1, 2), (2, 1, 66)), ((2, 2, 66), (1, 2, 2)), ((1, 2, 2), (2, 1, 2))]
    for a, b in resets:
        for side in ("enc", "dec"):
            if side == "dec":
                # a SUCCESSFUL reset of a DefaultRateDecoder (bitmap clear/grow + resize through the enum
                # payload) runs out of memory even for (1,2)->(1,1); failing resets are covered (C06/C07),
                # the encoder's reset is; the decoder's success path is not executed
                continue
            out.append(dict(mod="gen::c09g", name=f"default_reset_{side}_{'_'.join(map(str, a))}_to_{'_'.join(map(str, b))}", unwind=18,
                            body=f"crate::c09::default_reset_{side}({a[0]}, {a[1]}, {a[2]}, {b[0]}, {b[1]}, {b[2]})", kind="reset", side=side, a=a, b=b,
                            cross=rule(a[0], a[1]) != rule(b[0], b[1])))
    for k, r in ((2, 2), (3, 2), (2, 3), (4, 3), (3, 4)):
        rate = "high" if rule(k, r) else "low"
        for ln in (2, 0, 3, 4):
            out.append(dict(mod="gen::c09g", name=f"default_delegates_dec_{k}_{r}_len{ln}", unwind=40,
                            body=f"crate::c09::default_delegates_dec::<{DEC_TY[rate]}<N>>({k}, {r}, {ln})", kind="deleg_dec", k=k, r=r, ln=ln, rate=rate))
            out.append(dict(mod="gen::c09g", name=f"default_delegates_enc_{k}_{r}_len{ln}", unwind=40,
                            body=f"crate::c09::default_delegates_enc::<{ENC_TY[rate]}<N>>({k}, {r}, {ln})", kind="deleg_enc", k=k, r=r, ln=ln, rate=rate))
        # (decode()/encode() on a DefaultRate object - even on the error or nothing-to-restore
        # path - make CBMC walk the whole body with non-constant counts: > 13 min; not run)
    return out


# ------------------------------------------------------------------ C15 / C03 primitives
TOP = 65536


def prim_tuples(thorough_extra=True):
    """(size, trunc, delta) for fft/ifft obligations"""
    out = []
    for size in (1, 2, 4):
        for delta in (0, size, 2 * size, TOP - size):
            for trunc in range(1, size + 1):
                out.append((size, trunc, delta))
    # size 8: each basis harness costs 3-15 min, so two skew offsets and three truncated sizes
    for delta in (0, 8, TOP - 8):
        for trunc in ((3, 5, 8) if delta != 8 else (3, 5)):
            out.append((8, trunc, delta))
    return out


ENGINES = {"nosimd": ("NoSimd", "h"), "ssse3": ("Ssse3", "hx"), "avx2": ("Avx2", "hx"), "naive": ("Naive", "h"), "neon": ("crate::c15::NeonPort", "h")}


def c15_family():
    out = []
    for size, trunc, delta in prim_tuples():
        for op in ("fft", "ifft"):
            isf = "true" if op == "fft" else "false"
            ps = range(size) if op == "fft" else range(trunc)
            for p in ps:
                out.append(dict(mod="gen::c15g", name=f"basis_nosimd_{op}_{size}_{trunc}_{delta}_p{p}", unwind=128, macro="h",
                                body=f"crate::c15::prim_basis::<NoSimd>({isf}, {size}, {trunc}, {delta}, {p})",
                                kind="basis", engine="nosimd", op=op, size=size, trunc=trunc, delta=delta, p=p))
            if size <= 4:  # size-8 additivity on fully symbolic blocks: out of memory at 10 GB (basis form covers size 8)
              out.append(dict(mod="gen::c15g", name=f"additive_nosimd_{op}_{size}_{trunc}_{delta}", unwind=128, macro="h",
                              body=f"crate::c15::prim_additive::<NoSimd>({isf}, {size}, {trunc}, {delta})",
                              kind="additive", engine="nosimd", op=op, size=size, trunc=trunc, delta=delta))
            # Naive::fft/ifft read the 65536-entry exp/log statics: neither a full-block nor a
            # one-lane miter nor a concrete known answer fits CBMC (out of memory / > 10 min): not run.
            # Neon on emulated intrinsics: byte loops, size <= 4.
            for eng in ("ssse3", "avx2", "neon"):
                if eng == "neon" and size > 4:
                    continue
                T, mac = ENGINES[eng]
                out.append(dict(mod="gen::c15g", name=f"miter_{eng}_{op}_{size}_{trunc}_{delta}", unwind=128, macro=mac,
                                body=f"crate::c15::prim_miter::<{T}>({isf}, {size}, {trunc}, {delta})",
                                kind="miter", engine=eng, op=op, size=size, trunc=trunc, delta=delta))
    # larger transforms in the affordable one-lane form (about 5 min each): odd and even layer counts,
    # small truncated sizes (the last partially filled chunk of a high-rate encoder), chunk-aligned offsets
    for op, size, trunc, delta in (("ifft", 32, 5, 32), ("ifft", 32, 12, 0), ("ifft", 32, 17, 32), ("fft", 32, 20, 0), ("fft", 32, 7, 32),
                                   ("ifft", 16, 3, 16), ("ifft", 16, 9, 0), ("fft", 16, 5, 16), ("fft", 16, 16, 0)):
        isf = "true" if op == "fft" else "false"
        for p in sorted({0, (size if op == "fft" else trunc) - 1}):
            out.append(dict(mod="gen::c15g", name=f"basis_lane_nosimd_{op}_{size}_{trunc}_{delta}_p{p}", unwind=128, macro="h",
                            body=f"crate::c15::prim_basis_lane::<NoSimd>({isf}, {size}, {trunc}, {delta}, {p}, 3)",
                            kind="basis_lane", engine="nosimd", op=op, size=size, trunc=trunc, delta=delta, p=p))
    for eng in ("nosimd", "ssse3", "avx2", "neon"):
        T, mac = ENGINES[eng]
        for op, size, trunc, delta in (("fft", 4, 3, 4), ("ifft", 4, 2, 8), ("fft", 8, 5, 0), ("ifft", 8, 8, 8)):
            if eng == "neon" and size > 4:
                continue  # byte-loop emulation: size 8 runs out of memory
            isf = "true" if op == "fft" else "false"
            out.append(dict(mod="gen::c15g", name=f"kat_{eng}_{op}_{size}_{trunc}_{delta}", unwind=128, macro=mac,
                            body=f"crate::c15::prim_kat::<{T}>({isf}, {size}, {trunc}, {delta}, &crate::gen::primkat::IN_{size}, &crate::gen::primkat::OUT_{op.upper()}_{size}_{trunc}_{delta})",
                            kind="kat", engine=eng, op=op, size=size, trunc=trunc, delta=delta))
    for eng, mac in (("nosimd", "h"), ("ssse3", "hx"), ("avx2", "hx"), ("neon", "h")):
        for nb in (1, 2):
            out.append(dict(mod="gen::c15g", name=f"mul_{eng}_arbitrary_row_{nb}", unwind=128, macro=mac,
                            body=f"crate::c15::mul_{eng}({nb})", kind="mul", engine=eng, nblocks=nb))
    # Naive::mul against NoSimd::mul: a symbolic index into the 65536-entry exp/log statics did not
    # finish in 25 min; kept for the thorough tier with one concrete multiplier only
    for m in (12345,):
        out.append(dict(mod="gen::c15g", name=f"mul_naive_vs_nosimd_{m}", unwind=128, macro="h",
                        body=f"crate::c15::mul_naive_vs_nosimd({m})", kind="mul_naive", engine="naive", log_m=m))
    return out


# ------------------------------------------------------------------ C05
def c05_family():
    out = []
    S = "SpecEngine"
    # (3,3), (5,5): recovery_count <= original_count < chunk, i.e. the first chunk has padding that must be zeroed
    enc_b = [("high", 3, 2), ("low", 2, 3), ("high", 5, 2), ("low", 1, 3), ("high", 3, 3), ("high", 5, 5), ("low", 3, 3)]
    a_cfgs = {"high": [("high", 5, 3, 66), ("high", 2, 1, 2), ("low", 2, 3, 130), ("low", 3, 5, 2)],
              "low": [("low", 3, 5, 66), ("low", 1, 2, 2), ("high", 3, 2, 130), ("high", 5, 3, 2)]}
    for rate, k, r in enc_b:
        G = f"&crate::gen::gmat::G_{rate.upper()}_{k}_{r}"
        for ar, ak, arr, asb in a_cfgs[rate]:
            conv = f"crate::c17::{ar}_id_enc" if ar == rate else f"crate::c17::{ar}_to_{rate}_enc"
            for p in range(k):
                out.append(dict(mod="gen::c05g", name=f"enc_after_reset_{ar}_{ak}_{arr}_{asb}_to_{rate}_{k}_{r}_p{p}", unwind=66,
                                body=f"crate::c05::enc_after_reset::<{ENC_TY[ar]}<{S}>, {ENC_TY[rate]}<{S}>>(({ak}, {arr}, {asb}), {k}, {r}, {p}, {G}, {conv})",
                                kind="enc_after_reset", rate=rate, k=k, r=r, a=(ar, ak, arr, asb), p=p, cross=(ar != rate)))
        for p in range(k):
            out.append(dict(mod="gen::c05g", name=f"enc_round_drop_round_{rate}_{k}_{r}_p{p}", unwind=66,
                            body=f"crate::c05::enc_round_drop_round::<{ENC_TY[rate]}<{S}>>({k}, {r}, {p}, {G})",
                            kind="enc_rdr", rate=rate, k=k, r=r, p=p))
    dec_b = [("high", 3, 2, 0b100, 0b11, 0b001, 0b11), ("low", 2, 3, 0b00, 0b101, 0b01, 0b100), ("high", 2, 2, 0b00, 0b11, 0b10, 0b01),
             # patterns with a MISSING recovery shard (its stale slot must be zeroed by decode)
             ("high", 3, 2, 0b011, 0b10, 0b001, 0b11), ("high", 2, 2, 0b01, 0b10, 0b00, 0b11), ("low", 2, 3, 0b01, 0b010, 0b00, 0b101),
             # gap configurations: round 1 uses the LAST shard of the second region (beyond original_count + recovery_count)
             ("low", 3, 3, 0b011, 0b001, 0b010, 0b110), ("high", 3, 3, 0b011, 0b001, 0b110, 0b100)]
    for rate, k, r, om, rm, om1, rm1 in dec_b:
        G = f"&crate::gen::gmat::G_{rate.upper()}_{k}_{r}"
        for ar, ak, arr, asb in a_cfgs[rate]:
            conv = f"crate::c17::{ar}_id_dec" if ar == rate else f"crate::c17::{ar}_to_{rate}_dec"
            for p in range(k):
                out.append(dict(mod="gen::c05g", name=f"dec_after_reset_{ar}_{ak}_{arr}_{asb}_to_{rate}_{k}_{r}_o{om}_r{rm}_p{p}", unwind=66, stub=(rate == "low"),
                                body=f"crate::c05::dec_after_reset::<{DEC_TY[ar]}<{S}>, {DEC_TY[rate]}<{S}>, {k}, {r}>(({ak}, {arr}, {asb}), {om}, {rm}, {p}, {G}, {conv})",
                                kind="dec_after_reset", rate=rate, k=k, r=r, a=(ar, ak, arr, asb), p=p, om=om, rm=rm, cross=(ar != rate)))
        for p in range(k):
            out.append(dict(mod="gen::c05g", name=f"dec_round_drop_round_{rate}_{k}_{r}_o{om}_r{rm}_p{p}", unwind=66, stub=(rate == "low"),
                            body=f"crate::c05::dec_round_drop_round::<{DEC_TY[rate]}<{S}>, {k}, {r}>({om1}, {rm1}, {om}, {rm}, {p}, {G})",
                            kind="dec_rdr", rate=rate, k=k, r=r, p=p, om=om, rm=rm))
    # state after adds + reset / hand-over == fresh state (N engine; cheap)
    st = [("high", 3, 2, 2, 0b001, 0b01, "high", 5, 3, 2), ("high", 2, 2, 2, 0b01, 0b10, "high", 3, 2, 2), ("high", 3, 2, 66, 0b100, 0b11, "low", 2, 3, 2),
          ("low", 2, 3, 2, 0b01, 0b100, "low", 3, 5, 2), ("low", 2, 2, 2, 0b10, 0b01, "high", 3, 2, 66), ("low", 1, 2, 2, 0b1, 0b10, "low", 2, 3, 130),
          ("high", 5, 3, 2, 0b10000, 0b100, "high", 2, 1, 2), ("low", 3, 5, 2, 0b100, 0b10000, "high", 2, 2, 2)]
    for ar, ak, arr, asb, om, rm, br, bk, brr, bsb in st:
        conv_d = f"crate::c17::{ar}_id_dec" if ar == br else f"crate::c17::{ar}_to_{br}_dec"
        conv_e = f"crate::c17::{ar}_id_enc" if ar == br else f"crate::c17::{ar}_to_{br}_enc"
        out.append(dict(mod="gen::c05g", name=f"dec_reset_state_{ar}_{ak}_{arr}_{asb}_to_{br}_{bk}_{brr}_{bsb}", unwind=40,
                        body=f"crate::c05::dec_reset_state::<{DEC_TY[ar]}<N>, {DEC_TY[br]}<N>>(({ak}, {arr}, {asb}), {om}, {rm}, {bk}, {brr}, {bsb}, {conv_d})",
                        kind="dec_reset_state", rate=br, a=(ar, ak, arr, asb), b=(bk, brr, bsb), cross=(ar != br), full=True))
        out.append(dict(mod="gen::c05g", name=f"enc_reset_state_{ar}_{ak}_{arr}_{asb}_to_{br}_{bk}_{brr}_{bsb}", unwind=40,
                        body=f"crate::c05::enc_reset_state::<{ENC_TY[ar]}<N>, {ENC_TY[br]}<N>>(({ak}, {arr}, {asb}), {min(ak, 2)}, {bk}, {brr}, {bsb}, {conv_e})",
                        kind="enc_reset_state", rate=br, a=(ar, ak, arr, asb), b=(bk, brr, bsb), cross=(ar != br), full=True))
    return out


# ------------------------------------------------------------------ C04
B_SIZE = (2, 4, 30, 62, 64, 66, 126, 128, 130)
# larger sizes for the (cheap) layout harnesses only: odd/even numbers of whole blocks with and without tail
B_SIZE_LAYOUT = B_SIZE + (192, 194, 254, 256, 320, 322)


def c04_family():
    out = []
    for sb in B_SIZE_LAYOUT:
        for rate in ("high", "low"):
            out.append(dict(mod="gen::c04g", name=f"layout_enc_{rate}_{sb}", unwind=max(140, sb + 8),
                            body=f"crate::c04::layout_enc::<{ENC_TY[rate]}<N>>({sb})", kind="layout_enc", rate=rate, sb=sb))
        nsym = sb // 2
        qs = sorted({0, nsym - 1, min(nsym - 1, 32 * (sb // 64)), max(0, 32 * (sb // 64) - 1)})
        for q in qs:
            out.append(dict(mod="gen::c04g", name=f"layout_work_{sb}_q{q}", unwind=max(140, sb + 8),
                            body=f"crate::c04::layout_work::<HighRateEncoder<crate::c04::LookEngine>>({sb}, {q})", kind="layout_work", sb=sb, q=q))
    # undo over ranges of 4..9 shards with 1..3 blocks per shard (seed C04c)
    for rate, r in (("high", 4), ("high", 5), ("high", 8), ("low", 4), ("low", 7), ("low", 9)):
        for sb in (30, 66, 126, 130, 190):
            out.append(dict(mod="gen::c04g", name=f"layout_range_{rate}_1_{r}_{sb}", unwind=max(140, sb + 8),
                            body=f"crate::c04::layout_enc_range::<{ENC_TY[rate]}<crate::c04::FanEngine>>({r}, {sb})", kind="layout_range", rate=rate, r=r, sb=sb))
    S = "SpecEngine"
    for rate, k, r in (("high", 2, 1), ("low", 1, 2), ("high", 3, 2), ("low", 2, 3)):
        G = f"&crate::gen::gmat::G_{rate.upper()}_{k}_{r}"
        for sb in (4, 30, 64, 66, 130):
            nsym = sb // 2
            for q in sorted({0, nsym - 1}):
                for p in sorted({0, k - 1}):
                    out.append(dict(mod="gen::c04g", name=f"enc_slot_{rate}_{k}_{r}_sb{sb}_q{q}_p{p}", unwind=140,
                                    body=f"crate::c04::enc_slot::<{ENC_TY[rate]}<{S}>>({k}, {r}, {sb}, {q}, {p}, {G})",
                                    kind="enc_slot", rate=rate, k=k, r=r, sb=sb, q=q, p=p))
    for rate, k, r, om, rm in (("high", 2, 1, 0b10, 0b1), ("low", 1, 2, 0b0, 0b10), ("high", 3, 2, 0b100, 0b11), ("low", 2, 3, 0b00, 0b101)):
        G = f"&crate::gen::gmat::G_{rate.upper()}_{k}_{r}"
        # (3,2)/(2,3) with 64/66-byte shards (32+ live lanes through a size-8 decode) run out of memory at 12 GB
        for sb in ((4, 30, 64, 66) if k + r == 3 else (4, 30)):
            nsym = sb // 2
            for q in sorted({0, nsym - 1}):
                out.append(dict(mod="gen::c04g", name=f"dec_slot_{rate}_{k}_{r}_sb{sb}_q{q}", unwind=140, stub=(rate == "low"),
                                body=f"crate::c04::dec_slot::<{DEC_TY[rate]}<{S}>, {k}, {r}>({sb}, {q}, {om}, {rm}, {k - 1}, {G})",
                                kind="dec_slot", rate=rate, k=k, r=r, sb=sb, q=q, om=om, rm=rm))
    return out


FAMILIES = {
    "c04g": c04_family,
    "c05g": c05_family,
    "c15g": c15_family,
    "c09g": c09_family,
    "c11g": c11_family,
    "c17g": c17_family,
    "c07g": c07_family,
    "c10g": c10_family,
    "c12g": c12_family,
    "c01g": c01_family,
    "c02g": c02_family,
    "c06g": c06_family,
}


def all_members():
    out = []
    for f in FAMILIES.values():
        out.extend(f())
    return out


def render(modname):
    members = FAMILIES[modname]()
    if modname == "c10g":
        lines = ["// generated by lib/families.py\n"]
        for m in members:
            lines.append("#[cfg_attr(kani, kani::proof)]\n#[cfg_attr(kani, kani::unwind(%d))]\n" % m["unwind"]
                         + "#[cfg_attr(kani, kani::stub(std::hash::RandomState::new, crate::c10::fixed_random_state))]\n"
                         + f"pub fn {m['name']}() {{\n    {m['body']}\n}}\n")
        return "".join(lines)
    lines = ["// generated by lib/families.py\n", "#![allow(unused_imports)]\n", "use crate::{h, hf, hx};\n", "use reed_solomon_simd::engine::{Avx2, Naive, NoSimd, Ssse3};\n", "use crate::model::*;\n",
             "use reed_solomon_simd::rate::*;\n", "type N = NullEngine;\n\n"]
    for m in members:
        mac = m.get("macro") or ("hf" if m.get("stub") else "h")
        lines.append(f"{mac}!({m['name']}, {m['unwind']}, {m['body']});\n")
    return "".join(lines)
