"""Generator of harness/src/gen/*.rs (deterministic, regenerated from /repo on every run)."""
import os
import re

import oracle as O
import runner

GEN_DIR = os.path.join(runner.HARNESS_DIR, "src", "gen")


def write_if_changed(path, content):
    if os.path.exists(path) and open(path).read() == content:
        return False
    tmp = path + ".tmp%d" % os.getpid()
    with open(tmp, "w") as f:
        f.write(content)
    os.replace(tmp, path)
    return True


def rust_u16_array(vals, per_line=16):
    lines = []
    for i in range(0, len(vals), per_line):
        lines.append("    " + ", ".join(str(v) for v in vals[i:i + per_line]) + ",")
    return "\n".join(lines)


# log_m rows supplied to the sparse multiplication tables ---------------------
def sparse_row_keys(ctx):
    skew = ctx.table("skew")
    keys = set(4369 * t for t in range(16))           # subfield GF(16): every factor at work positions < 16
    keys.update(skew[i] for i in range(0, 64))        # skew factors of small FFTs at small offsets
    keys.update(skew[i] for i in range(65535 - 40, 65535))  # ... and at the top of the table
    keys.update([1, 2, 12345, 65534, 65535])
    return sorted(keys)


def gen_tables(ctx):
    skew = ctx.table("skew")
    exp = ctx.table("exp")
    log = ctx.table("log")
    mul16 = ctx.table("mul16")
    mul128 = ctx.table("mul128")
    keys = sparse_row_keys(ctx)
    assert len(keys) < 126, "too many sparse rows for the unwinding bound of the engine harnesses"
    out = []
    out.append("// generated from the tables the REAL initialisers of /repo produce (native dump, hooks off)\n")
    out.append("use reed_solomon_simd::engine::tables::{ExpLog, LogWalsh, Mul128, Mul16, Multiply128lutT, Skew};\n")
    out.append("use reed_solomon_simd::verif_hooks::{SparseMode, SparseTable, TableProviders};\n\n")
    out.append("pub static SKEW: Skew = [\n" + rust_u16_array(list(skew)) + "\n];\n\n")
    out.append("pub static EXP: [u16; 65536] = [\n" + rust_u16_array(list(exp)) + "\n];\n\n")
    out.append("pub static LOG: [u16; 65536] = [\n" + rust_u16_array(list(log)) + "\n];\n\n")
    out.append(f"pub const ROW_KEYS: [u16; {len(keys)}] = [" + ", ".join(map(str, keys)) + "];\n\n")
    out.append(f"pub static MUL16_ROWS: [(u16, [[u16; 16]; 4]); {len(keys)}] = [\n")
    for k in keys:
        base = k * 64
        rows = ["[" + ", ".join(str(mul16[base + t * 16 + i]) for i in range(16)) + "]" for t in range(4)]
        out.append(f"    ({k}, [" + ", ".join(rows) + "]),\n")
    out.append("];\n\n")
    out.append(f"pub static MUL128_ROWS: [(u16, Multiply128lutT); {len(keys)}] = [\n")
    for k in keys:
        raw = mul128[k * 128:(k + 1) * 128]
        lo = [int.from_bytes(raw[16 * i:16 * i + 16], "little") for i in range(4)]
        hi = [int.from_bytes(raw[64 + 16 * i:64 + 16 * i + 16], "little") for i in range(4)]
        out.append(f"    ({k}, Multiply128lutT {{ lo: [" + ", ".join(hex(x) for x in lo) + "], hi: [" + ", ".join(hex(x) for x in hi) + "] }),\n")
    out.append("];\n\n")
    out.append("""pub static MUL16: Mul16 = SparseTable::new(&MUL16_ROWS, SparseMode::Search);
pub static MUL128: Mul128 = SparseTable::new(&MUL128_ROWS, SparseMode::Search);
/// wildcard tables: every log_m maps to row 0 (index-arithmetic harnesses only)
pub static MUL16_WILD: Mul16 = SparseTable::new(&MUL16_ROWS, SparseMode::Wildcard);
pub static MUL128_WILD: Mul128 = SparseTable::new(&MUL128_ROWS, SparseMode::Wildcard);

fn p_skew() -> Box<Skew> {
    Box::new(SKEW)
}
fn p_mul16() -> Box<Mul16> {
    Box::new(SparseTable::new(&MUL16_ROWS, SparseMode::Search))
}
fn p_mul128() -> Box<Mul128> {
    Box::new(SparseTable::new(&MUL128_ROWS, SparseMode::Search))
}
fn p_exp_log() -> ExpLog {
    ExpLog { exp: Box::new(EXP), log: Box::new(LOG) }
}
fn p_log_walsh() -> Box<LogWalsh> {
    // never read by a harness: eval_poly is replaced by its contract
    Box::new([0; 65536])
}

fn p_skew_dummy() -> Box<Skew> {
    Box::new([0; 65535])
}
fn p_mul16_dummy() -> Box<Mul16> {
    Box::new(SparseTable::new(&MUL16_ROWS, SparseMode::Wildcard))
}
fn p_mul128_dummy() -> Box<Mul128> {
    Box::new(SparseTable::new(&MUL128_ROWS, SparseMode::Wildcard))
}
fn p_exp_log_dummy() -> ExpLog {
    ExpLog { exp: Box::new([0; 65536]), log: Box::new([0; 65536]) }
}

/// providers with dummy contents, for harnesses whose feasible paths never
/// execute engine arithmetic (error paths of the top-level API)
pub fn install_dummy_providers() {
    reed_solomon_simd::verif_hooks::set_table_providers(TableProviders {
        exp_log: Some(p_exp_log_dummy),
        log_walsh: Some(p_log_walsh),
        mul16: Some(p_mul16_dummy),
        mul128: Some(p_mul128_dummy),
        skew: Some(p_skew_dummy),
    });
}

/// install providers so that the crate's LazyLock statics never run the real initialisers
pub fn install_providers() {
    reed_solomon_simd::verif_hooks::set_table_providers(TableProviders {
        exp_log: Some(p_exp_log),
        log_walsh: Some(p_log_walsh),
        mul16: Some(p_mul16),
        mul128: Some(p_mul128),
        skew: Some(p_skew),
    });
}
""")
    return "".join(out)


SPEC_SIZES = (1, 2, 4, 8, 16)


def spec_tuples():
    """(size, delta) pairs for which the oracle matrices are emitted"""
    t = []
    for size in SPEC_SIZES:
        deltas = set(range(0, 33, size))
        deltas.update([2 * size, 3 * size, 65536 - size, 65536 - 2 * size])
        for d in sorted(deltas):
            if d + size <= 65536 and (d + size <= 48 or d >= 65536 - 2 * size):
                t.append((size, d))
    # size 32: only the two offsets used by the one-lane harnesses of C15
    t += [(32, 0), (32, 32)]
    return t


def words_literal(c):
    return "[" + ", ".join(str(w) for w in O.mulc_words(c)) + "]"


def gen_spec(ctx):
    out = ["// generated from the independent oracle (lib/oracle.py): field polynomial + Cantor basis only\n\n"]
    arms_f, arms_i = [], []
    for size, delta in spec_tuples():
        F = O.fft_matrix(size, delta)
        I = O.mat_inv(F)
        for nm, M, arms in (("FFT", F, arms_f), ("IFFT", I, arms_i)):
            name = f"{nm}_{size}_{delta}"
            out.append(f"static {name}: [[u16; 16]; {size * size}] = [\n")
            for i in range(size):
                for k in range(size):
                    out.append("    " + words_literal(M[i][k]) + ",\n")
            out.append("];\n")
            arms.append(f"        ({size}, {delta}) => Some(&{name}),\n")
    out.append("\npub fn fft_words(size: usize, delta: usize) -> Option<&'static [[u16; 16]]> {\n    match (size, delta) {\n" + "".join(arms_f) + "        _ => None,\n    }\n}\n")
    out.append("\npub fn ifft_words(size: usize, delta: usize) -> Option<&'static [[u16; 16]]> {\n    match (size, delta) {\n" + "".join(arms_i) + "        _ => None,\n    }\n}\n")
    out.append("\n/// LOG32[v] = discrete log of label v (v in 1..32); LOG32[0] unused\n")
    out.append("pub static LOG32: [u16; 32] = [0, " + ", ".join(str(O.llog(v)) for v in range(1, 32)) + "];\n")
    # multiplication constants g^m for every m that is a log of a GF(16) element (multiples of 4369)
    out.append("\npub fn mulc_words(log_m: u16) -> Option<&'static [u16; 16]> {\n    match log_m {\n")
    consts = []
    for t in range(1, 15):
        m = 4369 * t
        consts.append(f"static MULC_{m}: [u16; 16] = {words_literal(O.lexp(m))};\n")
        out.append(f"        {m} => Some(&MULC_{m}),\n")
    out.append("        _ => None,\n    }\n}\n")
    out.extend(consts)
    return "".join(out)


def kat_input(k, salt):
    import random
    rnd = random.Random(1000 * k + salt)
    return [rnd.randrange(1, 65536) for _ in range(k)]


def gen_gmat(ctx):
    """C02 generator matrices (closed form, oracle) + known answers (REAL NoSimd engine, native)"""
    import families
    out = ["// generated: G from the closed form of property C02 (oracle); KAT_OUT from the real crate run natively\n\n"]
    for rate, k, r in families.b_cfg(16):
        G = O.generator(rate, k, r)
        out.append(f"pub static G_{rate.upper()}_{k}_{r}: [[u16; 16]; {k * r}] = [\n")
        for j in range(r):
            for i in range(k):
                out.append("    " + words_literal(G[j][i]) + ",\n")
        out.append("];\n")
        inp = kat_input(k, r)
        resp = ctx.native.cmd(f"encode {rate} nosimd {k} {r} 2 " + "".join(bytes([v & 255, v >> 8]).hex() for v in inp))
        assert resp.startswith("ok "), resp
        b = bytes.fromhex(resp.split()[1])
        outv = [b[2 * j] | b[2 * j + 1] << 8 for j in range(r)]
        out.append(f"pub static KAT_IN_{rate.upper()}_{k}_{r}: [u16; {k}] = {inp};\n")
        out.append(f"pub static KAT_OUT_{rate.upper()}_{k}_{r}: [u16; {r}] = {outv};\n")
    return "".join(out)


def gen_primkat(ctx):
    """known answers of fft/ifft computed natively by the real NoSimd engine"""
    import random
    out = ["// generated: known answers from the real crate (native)\n"]
    ins = {}
    for size in (4, 8):
        rnd = random.Random(size)
        ins[size] = bytes(rnd.randrange(256) for _ in range(64 * size))
        out.append(f"pub static IN_{size}: [u8; {64 * size}] = {list(ins[size])};\n")
    for op, size, trunc, delta in (("fft", 4, 3, 4), ("ifft", 4, 2, 8), ("fft", 8, 5, 0), ("ifft", 8, 8, 8)):
        resp = ctx.native.cmd(f"prim nosimd {op} 0 {size} {trunc} {delta} 1 {ins[size].hex()}")
        assert resp.startswith("ok "), resp
        b = bytes.fromhex(resp.split()[1])
        out.append(f"pub static OUT_{op.upper()}_{size}_{trunc}_{delta}: [u8; {64 * size}] = {list(b)};\n")
    return "".join(out)


def gen_neon_port(ctx):
    """textual port of the Neon engine's source onto emulated intrinsics (harness/src/neon_emul.rs)"""
    src = open("/repo/src/engine/engine_neon.rs").read()
    s = src
    if "use std::arch::aarch64::*;" not in s or "use crate::engine::{" not in s:
        raise RuntimeError("engine_neon.rs no longer has the expected use lines: port must be revised")
    s = s.replace("use std::arch::aarch64::*;", "use crate::neon_emul::*;")
    s = s.replace("use crate::engine::{", "use reed_solomon_simd::engine::{", 1)
    s = re.sub(r'\n\s*#\[target_feature\(enable = "neon"\)\]', "", s)
    s = re.sub(r'\n\s*#\[cfg\(feature = "verif-hooks"\)\]\n\s*crate::verif_hooks::trace_isa\(crate::verif_hooks::ISA_NEON\);\n', "\n", s)
    s += """
impl Neon {
    /// engine over the given tables (added by the port)
    pub fn verif_with_tables(mul128: &'static Mul128, skew: &'static Skew) -> Self {
        Self { mul128, skew }
    }
}
"""
    return ("// GENERATED on every run: textual port of /repo/src/engine/engine_neon.rs (only `use` lines and attributes rewritten)\n"
            "#![allow(clippy::all, unused_unsafe, rustdoc::broken_intra_doc_links)]\n" + s)


def scan_harnesses():
    """all proof harnesses declared in harness/src/*.rs and gen/*.rs: [(module path, fn)]"""
    found = []
    src = os.path.join(runner.HARNESS_DIR, "src")
    files = [(f[:-3], os.path.join(src, f)) for f in sorted(os.listdir(src)) if re.match(r"c\d+\w*\.rs$", f)]
    if os.path.isdir(GEN_DIR):
        files += [("gen::" + f[:-3], os.path.join(GEN_DIR, f)) for f in sorted(os.listdir(GEN_DIR)) if re.match(r"c\d+\w*\.rs$", f)]
    for mod, path in files:
        txt = open(path).read()
        for m in re.finditer(r"^\s*h[fx]?!\(\s*(\w+)\s*,", txt, re.M):
            found.append((mod, m.group(1)))
        for m in re.finditer(r"^h14!\(\s*(\w+)\s*,", txt, re.M):
            found.append((mod, m.group(1)))
        for m in re.finditer(r"cfg_attr\(kani, kani::proof\)\]\s*(?:#\[[^\]]*\]\s*)*(?:pub )?fn (\w+)", txt):
            found.append((mod, m.group(1)))
    return found


def gen_dispatch(extra=()):
    hs = scan_harnesses() + list(extra)
    out = ["// generated: native dispatch table for counterexample replay\n",
           "pub fn dispatch(name: &str) -> Option<fn()> {\n    match name {\n"]
    for mod, fn in hs:
        out.append(f'        "{mod}::{fn}" => Some(crate::{mod}::{fn}),\n')
    out.append("        _ => None,\n    }\n}\n")
    return "".join(out)


def generate(ctx):
    os.makedirs(GEN_DIR, exist_ok=True)
    mods = {"tables": gen_tables(ctx), "spec": gen_spec(ctx), "gmat": gen_gmat(ctx), "primkat": gen_primkat(ctx), "neon_port": gen_neon_port(ctx)}
    import families
    for name in families.FAMILIES:
        mods[name] = families.render(name)
        write_if_changed(os.path.join(GEN_DIR, name + ".rs"), mods[name])
    mods["dispatch"] = gen_dispatch()
    for name, content in mods.items():
        write_if_changed(os.path.join(GEN_DIR, name + ".rs"), content)
    write_if_changed(os.path.join(GEN_DIR, "mod.rs"), "// generated\n" + "".join(f"pub mod {m};\n" for m in sorted(mods)))
