"""Generator of harness/src/gen/*.rs (deterministic)."""
import os

import runner

GEN_DIR = os.path.join(runner.HARNESS_DIR, "src", "gen")


def write_if_changed(path, content):
    if os.path.exists(path) and open(path).read() == content:
        return False
    tmp = path + ".tmp"
    with open(tmp, "w") as f:
        f.write(content)
    os.replace(tmp, path)
    return True


def generate(ctx):
    os.makedirs(GEN_DIR, exist_ok=True)
    mods = []
    write_if_changed(os.path.join(GEN_DIR, "mod.rs"), "// generated\n" + "".join(f"pub mod {m};\n" for m in mods))
