"""Registry: property id -> plan builder."""
from dataclasses import dataclass, field


@dataclass
class Plan:
    harnesses: list
    assumptions: list
    outside: list                  # what lies outside the bounds (not claimed)
    trusted_base: list = field(default_factory=list)
    zqueries: list = field(default_factory=list)
    run_z: object = None
    rule: str = ""
    notes: str = ""


REGISTRY = {}


def register(pid):
    def deco(f):
        REGISTRY[pid] = f
        return f
    return deco


COMMON_TRUSTED = [
    "Kani 0.68.0 MIR->goto translation and its models of std/alloc",
    "CBMC 6.11.0 symbolic execution + CaDiCaL SAT solver",
    "rustc front end (the harness crate compiles /repo's current source)",
]

from . import c01, c02, c04, c05, c06, c07, c08, c09, c10, c11, c12, c14, c15, c17  # noqa: E402,F401
