import random

import families
from runner import Harness, FUNC, FULL
from . import Plan, register, COMMON_TRUSTED
from .c01 import FILL_STUB


@register("C05")
def plan(ctx):
    rnd = random.Random(ctx.seed)
    fam = families.c05_family()
    groups = {}
    for m in fam:
        if not m["kind"].endswith("reset_state"):
            groups.setdefault((m["kind"], m["rate"], m.get("cross")), []).append(m)
    quick = set()
    for key, ms in sorted(groups.items(), key=str):
        n = 1 if key[0].startswith("dec") else 2
        for m in rnd.sample(ms, min(n, len(ms))):
            quick.add(m["name"])
    # shape classes that must always be present: first-chunk padding (r <= k < chunk) for the encoder, gap configurations for the decoder
    pad = [m for m in fam if m["kind"] == "enc_after_reset" and (m["k"], m["r"]) in ((3, 3), (5, 5)) and m["rate"] == "high"]
    quick.add(rnd.choice(pad)["name"])
    quick.add(rnd.choice([m for m in fam if m["kind"] == "enc_rdr" and (m["k"], m["r"]) == (3, 3) and m["rate"] == "high"])["name"])
    gap = [m for m in fam if m["kind"] == "dec_rdr" and (m["k"], m["r"]) == (3, 3)]
    quick.add(rnd.choice([m for m in gap if m["rate"] == "high"])["name"])
    miss = [m for m in fam if m["kind"] == "dec_after_reset" and m["rate"] == "high" and bin(m["rm"]).count("1") < m["r"]]
    quick.add(rnd.choice(miss)["name"])
    quick.add(rnd.choice([m for m in fam if m["kind"] == "dec_rdr" and bin(m["rm"]).count("1") < m["r"] and m["rate"] == "high"])["name"]) if any(m["kind"] == "dec_rdr" and bin(m["rm"]).count("1") < m["r"] and m["rate"] == "high" for m in fam) else None
    hs = []
    for m in fam:
        R = "High" if m["rate"] == "high" else "Low"
        tiers = ("quick", "thorough") if m["name"] in quick else ("thorough",)
        stubs = [FILL_STUB] if m.get("stub") else []
        side = "Encoder" if m["kind"].startswith("enc") else "Decoder"
        if m["kind"].endswith("reset_state"):
            pass
        if m["kind"].endswith("reset_state"):
            a = m["a"]
            hs.append(Harness(f"gen::c05g::{m['name']}", "C05",
                              f"{a[0]}-rate {side.lower()} ({a[1]},{a[2]},{a[3]} bytes) with shards added but no round run, then {'reset' if not m['cross'] else 'into_parts -> new(Some(work))'} to {m['rate']}-rate {m['b']}: configuration, layout and counters equal a freshly constructed codec and NO received bit survives (growing and shrinking bitmaps)",
                              encodes=[f"{side}Work::reset", "FixedBitSet::clear/grow", "Shards::resize", "into_parts / new(Some(work))"], bounds="concrete configuration pair; unwind 40",
                              flags=FULL, timeout=900, mem_gb=6, symbolic="shard bytes", tiers=("quick", "thorough")))
            continue
        if m["kind"].endswith("after_reset"):
            a = m["a"]
            how = "reset" if not m["cross"] else "into_parts -> new(Some(work)) across rates"
            what = (f"every recovery symbol equals G[j][{m['p']}]*x" if side == "Encoder" else f"the missing originals (given originals {m['om']:b}, recovery {m['rm']:b}) are restored byte-exactly")
            hs.append(Harness(f"gen::c05g::{m['name']}", "C05",
                              f"{a[0]}-rate {side.lower()} configured ({a[1]},{a[2]}) with {a[3]}-byte shards, then {how} to {R}Rate{side}<SpecEngine> ({m['k']},{m['r']}) while EVERY surviving byte of working memory is nondeterministic (poison hook): {what} (original {m['p']} symbolic, others 0)",
                              encodes=["Shards::resize", f"{side}Work::reset", "into_parts / new(Some(work))", f"{R}Rate{side}::{'encode' if side=='Encoder' else 'decode'} (zeroing of padding / unreceived positions)"],
                              bounds="2-byte shards in the checked round; this configuration pair; unwind 66", timeout=1800, mem_gb=10, stubs=stubs,
                              symbolic="all stale working memory (every surviving block), one data symbol", tiers=tiers))
        else:
            hs.append(Harness(f"gen::c05g::{m['name']}", "C05",
                              f"{R}Rate{side}<SpecEngine> ({m['k']},{m['r']}): round 1 on fully symbolic shards, result dropped (implicit reset), round 2 with original {m['p']} symbolic: output equals the specification, i.e. is independent of round 1",
                              encodes=[f"{side}Result::drop -> reset_received", f"{R}Rate{side}::{'encode' if side=='Encoder' else 'decode'}"],
                              bounds="2 rounds, 2-byte shards, unwind 66", timeout=2400, mem_gb=10, stubs=stubs,
                              symbolic="all shards of round 1, one data symbol of round 2", tiers=tiers))
    return Plan(hs,
                assumptions=["poison hook (verif-hooks): after Vec::resize the blocks that kept their old contents are overwritten with nondeterministic bytes = all possible stale contents (newly grown blocks are zero by Vec::resize)",
                             "SpecEngine contract: garbage outputs of fft are fresh nondeterministic values and ifft asserts its zero-tail precondition at the real call sites, so any reliance on un-zeroed memory is visible",
                             "independence shown against the specification (C02's G / the original data) in basis form; with additivity this is independence for all data",
                             "failed calls in between: C07 (they change nothing)"],
                outside=["histories longer than reset+round or two rounds", "shard sizes other than 2 bytes in the checked round (earlier configurations use 2..130)", "DefaultRate/ReedSolomon objects (their reset is the dedicated codecs' reset or into_parts/new: C09)"],
                trusted_base=COMMON_TRUSTED)
