from runner import Harness, FULL, FUNC
from . import Plan, register, COMMON_TRUSTED


@register("C08")
def plan(ctx):
    hs = []
    enc = ["DefaultRate::supports", "use_high_rate", "HighRate::supports", "LowRate::supports",
           "RateEncoder::supports", "RateDecoder::supports", "ReedSolomonEncoder::supports", "ReedSolomonDecoder::supports"]
    for n, what in (("supports_default", "default rate / ReedSolomonEncoder / ReedSolomonDecoder"),
                    ("supports_high", "high rate (recovery_count is the power-of-two-bounded side)"),
                    ("supports_low", "low rate (original_count is the power-of-two-bounded side)")):
        hs.append(Harness(f"c08::{n}", "C08",
                          f"supports(o,r) == README envelope (17-way disjunction over n) for {what}",
                          encodes=enc, bounds="none: two fully symbolic 64-bit usize", flags=FULL, timeout=300, mem_gb=3,
                          symbolic="original_count, recovery_count: all 2^128 pairs"))
    hs.append(Harness("c08::supports_default_is_union_and_rule_is_supported", "C08",
                      "default envelope = high U low; the rate the rule picks supports the pair; Err is truthful",
                      encodes=["use_high_rate", "DefaultRate::supports", "HighRate::supports", "LowRate::supports"],
                      bounds="none (64-bit)", flags=FULL, timeout=300, mem_gb=3, symbolic="original_count, recovery_count"))
    hs.append(Harness("c08::validate_all", "C08",
                      "validate == (supports, then shard size even and non-zero) with the truthful Error variant, 9 codec types",
                      encodes=["Rate::validate", "RateEncoder::validate", "RateDecoder::validate"],
                      bounds="none (three 64-bit usize)", flags=FULL, timeout=300, mem_gb=3,
                      symbolic="original_count, recovery_count, shard_bytes"))
    for n in ("work_arith_high", "work_arith_low"):
        hs.append(Harness(f"c08::{n}", "C08",
                          "for every supported pair: work_count holds all positions used; chunk + work_count <= 65536 (skew index range)",
                          encodes=["HighRateEncoder::work_count", "HighRateDecoder::work_count", "LowRateEncoder::work_count", "LowRateDecoder::work_count"],
                          bounds="none (64-bit), assumes supports(o,r)", flags=FULL, timeout=600, mem_gb=3,
                          symbolic="original_count, recovery_count"))
    import mir2smt
    return Plan(hs, zqueries=["MIR_use_high_rate", "MIR_HighRate_supports", "MIR_LowRate_supports"], run_z=lambda c, tier: mir2smt.run(c),
                assumptions=["README envelope transcribed by hand into the harness (function `envelope`) and, independently, into SMT-LIB (lib/mir2smt.py)",
                             "second verdict: the nightly's MIR of use_high_rate / HighRate::supports / LowRate::supports executed symbolically over (_ BitVec 64), decided by z3 AND cvc5; a sat model is replayed against the real function through the native companion"],
                outside=["executing a corner configuration (counts near 65535) end to end", "allocation failure"],
                trusted_base=COMMON_TRUSTED + ["rustc nightly -Zunpretty=mir", "z3 4.8.12", "cvc5 1.0", "lib/mir2smt.py (translator; a wrong translation can only cause an inconclusive result or a counterexample that fails native replay)"],
                rule="one solver query per harness; a harness is non-trivial when it has symbolic inputs and all its kani::cover! reachability witnesses are satisfied")
