import families
from runner import Harness, FULL
from . import Plan, register, COMMON_TRUSTED


@register("C17")
def plan(ctx):
    fam = families.c17_family()
    hs = []
    for n, m in enumerate(fam):
        if m["kind"].endswith("_chain"):
            side = "encoder" if m["kind"] == "enc_chain" else "decoder"
            hs.append(Harness(f"gen::c17g::{m['name']}", "C17",
                              f"{m['fr']}-rate {side}: chain of resets on one object {m['cfgs']} (shrink, then grow again within the capacity held), one full round after each reset: data pointer and capacity"
                              + (" and the received bitmap's pointer and length" if side == "decoder" else "") + " never change after the first configuration",
                              encodes=["Shards::resize", "EncoderWork::reset / DecoderWork::reset", "FixedBitSet::grow/clear", "reset_received"],
                              bounds="concrete configuration chain of 3-4 resets; 1 round per configuration; unwind 66", flags=FULL, timeout=1500, mem_gb=8,
                              symbolic="shard bytes (one symbolic byte value per shard)",
                              tiers=("quick", "thorough") if m["cfgs"][0][2] == 130 and len(m["cfgs"]) == 3 else ("thorough",)))
            continue
        side = "encoder" if m["kind"] == "enc" else "decoder"
        how = "reset" if m["same"] else "into_parts -> new(Some(work)) of the other rate"
        hs.append(Harness(f"gen::c17g::{m['name']}", "C17",
                          f"{m['fr']}-rate {side} configured {m['a']}: two full rounds (add, {'encode' if m['kind']=='enc' else 'decode'}, read, drop) keep the data pointer and capacity of the working space"
                          + (" and of the received bitmap" if m["kind"] == "dec" else "")
                          + f"; then {how} to {m['to']}-rate {m['b']}: pointer and capacity unchanged iff the new need (positions x blocks) fits the held capacity, otherwise capacity >= need afterwards",
                          encodes=["Shards::resize", "EncoderWork::reset / DecoderWork::reset", "FixedBitSet::grow/clear", "into_parts", "RateEncoder::new(Some(work)) / RateDecoder::new(Some(work))", "reset_received"],
                          bounds="concrete configuration pair; 2 rounds; shard sizes in {2,64,66,130}; unwind 66", flags=FULL, timeout=1500, mem_gb=8,
                          symbolic="shard bytes (one symbolic byte value per shard)",
                          tiers=("quick", "thorough") if n % 4 in (0, 1) else ("thorough",)))
    return Plan(hs,
                assumptions=["NullEngine", "'never allocates' is decided as 'the held buffers keep their address and capacity' (Kani ignores custom global allocators, so calls to the allocator cannot be counted); a temporary allocation that leaves the held buffers in place would escape",
                             "Kani's model of Vec/RawVec growth (a resize within capacity keeps the pointer)"],
                outside=["allocation counting", "the 128 KiB erasure array on the decoder's stack (not shard-proportional)", "configuration pairs other than the 12 enumerated and reset chains other than the 4 enumerated", "DefaultRate/ReedSolomon wrappers (their reset is into_parts/new or inner reset: C09)"],
                trusted_base=COMMON_TRUSTED)
