from runner import Harness, FUNC

RV = FUNC + ["-Z", "restrict-vtable"]
from . import Plan, register, COMMON_TRUSTED

STUBS = ["std::arch::x86_64::_mm_shuffle_epi8 -> c15::shuf::mm_shuffle_epi8 (Rust model)", "std::arch::x86_64::_mm256_shuffle_epi8 -> c15::shuf::mm256_shuffle_epi8 (Rust model)",
         "engine::utils::eval_poly -> c14::eval_poly_marker (records reach + arguments; the 65536-point transforms cannot be executed by CBMC)"]


@register("C14")
def plan(ctx):
    hs = []
    for n, what in (("mask_none", "{} (no SIMD reported)"), ("mask_ssse3", "{SSSE3}"), ("mask_avx2", "{AVX2}"), ("mask_avx2_ssse3", "{AVX2, SSSE3}")):
        hs.append(Harness(f"c14::{n}", "C14",
                          f"feature subset {what}: DefaultEngine::new() executes no SIMD entry point; mul, fft, ifft and DefaultEngine::eval_poly each execute exactly the best reported ISA (trace of #[target_feature] entry points == {{best(mask)}}, empty for the empty mask) and produce the same bytes as NoSimd on fully symbolic blocks; eval_poly reaches utils::eval_poly once with unchanged arguments",
                          encodes=["DefaultEngine::new", "DefaultEngine::{fft,ifft,mul,eval_poly}", "Avx2/Ssse3/NoSimd::new (LazyLock tables through providers)", "Avx2::*_avx2, Ssse3::*_ssse3 entry points", "engine_default.rs feature-mask macro"],
                          bounds="one mask per harness (all 4 subsets enumerated); one-block shards; fft/ifft size 2; log_m = 4369; symbolic truncated_size for eval_poly; unwind 128",
                          timeout=2400, mem_gb=12, stubs=STUBS, flags=RV, symbolic="3 x 64 block bytes, truncated_size"))
    hs.append(Harness("c14::eval_poly_delegation_h", "C14",
                      "Avx2/Ssse3/NoSimd/Naive::eval_poly each reach utils::eval_poly exactly once with the caller's buffer and truncated_size; SIMD ones record their ISA, portable ones none",
                      encodes=["Avx2::eval_poly_avx2", "Ssse3::eval_poly_ssse3", "Engine::eval_poly (provided)"], bounds="symbolic truncated_size", timeout=1200, mem_gb=8,
                      stubs=STUBS, symbolic="truncated_size"))
    return Plan(hs,
                assumptions=["runtime detection replaced by the verif-hooks feature mask (under Kani the mask alone decides; cpuid cannot be modelled); natively the hook ANDs real detection with the mask",
                             "ISA trace = one recording line at the top of each #[target_feature] function (hook); inlined helpers below them inherit the ISA",
                             "pshufb models; tables dumped from the real initialisers"],
                outside=["AArch64/Neon branch (cfg'ed out on this host)", "codec-level rounds through DefaultEngine (enum/boxed engine state does not fit CBMC; primitives compose by C01/C02 over the contract)", "fft sizes > 2 under DefaultEngine (sizes up to 8 per engine: C03)"],
                trusted_base=COMMON_TRUSTED)
