import random

import families
from runner import Harness, FULL
from . import Plan, register, COMMON_TRUSTED


@register("C12")
def plan(ctx):
    rnd = random.Random(ctx.seed)
    fam = families.c12_family()
    hs = []
    dec = [m for m in fam if m["kind"] == "dec_result"]
    quick = set()
    for rate in ("high", "low"):
        ms = [m for m in dec if m["rate"] == rate]
        small = [m for m in ms if m["k"] + m["r"] == 4]
        # a pattern with recovery shard 0 missing (the position right behind the originals / in front of them)
        quick.add(rnd.choice([m for m in small if not m["complete"] and m["rm"] & 1 == 0])["name"])
        quick.add(rnd.choice([m for m in ms if m["complete"] and m["k"] + m["r"] <= 5])["name"])
        # a gap configuration, round 1 touching the last shard of the second region
        quick.add(rnd.choice([m for m in ms if m["k"] + m["r"] == 6])["name"])
    for m in fam:
        R = "High" if m["rate"] == "high" else "Low"
        if m["kind"] == "enc_result":
            hs.append(Harness(f"gen::c12g::{m['name']}", "C12",
                              f"{R}RateEncoder<NullEngine> ({m['k']},{m['r']}), 3 consecutive rounds on one object: recovery(i) for UNBOUNDED symbolic i is Some (len = shard_bytes) iff i < recovery_count; iterator yields recovery(0..r) (pointer-equal) then None x3; after drop the next round's adds and encode succeed",
                              encodes=["EncoderResult::recovery/recovery_iter/drop", "Recovery::next", "EncoderWork::recovery/reset_received", "RateEncoder::encode"],
                              bounds="3 rounds, 2-byte shards, unwind 66", flags=FULL, timeout=1500, mem_gb=8, symbolic="index (usize, unbounded), shard bytes",
                              tiers=("quick", "thorough") if (m["rate"], m["k"], m["r"]) in (("high", 2, 2), ("low", 1, 3)) else ("thorough",)))
        else:
            hs.append(Harness(f"gen::c12g::{m['name']}", "C12",
                              f"{R}RateDecoder<NullEngine> ({m['k']},{m['r']}), given originals {m['om']:b} / recovery {m['rm']:b}, 2 rounds: restored_original(i) for UNBOUNDED symbolic i is Some iff i < original_count and not given; iterator = ascending (i, restored_original(i)) then None x3; after drop the same adds succeed again",
                              encodes=["DecoderResult::restored_original/restored_original_iter/drop", "RestoredOriginal::next", "DecoderWork::restored_original/reset_received", "RateDecoder::decode"],
                              bounds="2 rounds, concrete received set, 2-byte shards, unwind 66", flags=FULL, timeout=2400, mem_gb=14 if m["rate"] == "low" else 8,
                              stubs=["core::slice::specialize::SpecFill::spec_fill -> stubs::stub_spec_fill"] if m.get("stub") else [],
                              symbolic="index (usize, unbounded), shard bytes", tiers=("quick", "thorough") if m["name"] in quick else ("thorough",)))
    return Plan(hs, assumptions=["NullEngine (which shards are reported does not depend on shard data)"],
                outside=["configurations beyond (3,2)/(2,3)", "more than 3 consecutive rounds", "shard sizes other than 2 bytes", "DefaultRate/ReedSolomon wrappers (delegation: C09)"],
                trusted_base=COMMON_TRUSTED)
