import random

import families
from runner import Harness, FUNC
from . import Plan, register, COMMON_TRUSTED

FILL_STUB = "core::slice::specialize::SpecFill::spec_fill -> stubs::stub_spec_fill (fills longer than 64 elements become a ghost range read back by the eval_poly contract)"


def dec_encodes(R):
    return [f"{R}RateDecoder::new", "DecoderWork::reset/add_original_shard/add_recovery_shard/decode_begin", "Shards::insert",
            f"{R}RateDecoder::decode (erasure marks, mul by locator values, zero, ifft, formal_derivative, fft, reveal)", "utils::formal_derivative", "utils::xor_within",
            "Shards::undo_last_chunk_encoding", "DecoderResult::restored_original", "DecoderWork::restored_original"]


@register("C01")
def plan(ctx):
    rnd = random.Random(ctx.seed)
    fam = families.c01_family()
    # quick: per rate one multi-chunk config and one seed-chosen config of B_cfg5; 2 seed-chosen patterns each (always incl. a maximal-loss one); all p
    quick = set()
    for rate in ("high", "low"):
        cfgs = sorted({(m["k"], m["r"]) for m in fam if m["rate"] == rate and m["kind"] == "dec_basis" and m.get("exhaustive_patterns")})
        pick = {rnd.choice([c for c in cfgs if c[0] + c[1] == 5 and min(c) >= 2])}
        for (k, r) in pick:
            pats = sorted({(m["om"], m["rm"]) for m in fam if m["rate"] == rate and (m["k"], m["r"]) == (k, r) and m["kind"] == "dec_basis"})
            maxloss = [p for p in pats if families.popcount(p[0]) + families.popcount(p[1]) == k]
            sel = {rnd.choice(maxloss), rnd.choice(pats)}
            # a pattern whose given recovery shards are NOT an index prefix (a missing one below a given one)
            nonprefix = [p for p in pats if p[1] & (p[1] + 1)]
            if nonprefix:
                sel.add(rnd.choice(nonprefix))
            for (om, rm) in sel:
                quick.add((rate, k, r, om, rm))
    hs = []
    for m in fam:
        R = "High" if m["rate"] == "high" else "Low"
        q = (m["rate"], m["k"], m["r"], m["om"], m["rm"]) in quick
        tiers = ("quick", "thorough") if q else ("thorough",)
        stubs = [FILL_STUB] if m.get("stub") else []
        if m["kind"] == "dec_additive":
            hs.append(Harness(f"gen::c01g::{m['name']}", "C01",
                              f"real {R}RateDecoder<SpecEngine> ({m['k']},{m['r']}), given originals {m['om']:b} + recovery {m['rm']:b}: restore(a) ^ restore(b) == restore(a^b) for two fully symbolic data sets (decode is additive for this pattern: basis form => all data)",
                              encodes=dec_encodes(R), bounds="2-byte shards; this pattern; three decodes; unwind 66", timeout=5400, mem_gb=12, stubs=stubs,
                              symbolic="two full data sets", tiers=("thorough",)))
            continue
        if m["kind"] == "dec_basis":
            hs.append(Harness(f"gen::c01g::{m['name']}", "C01",
                              f"real {R}RateDecoder<SpecEngine> ({m['k']},{m['r']}), given originals mask {m['om']:b} + recovery mask {m['rm']:b} (recovery = G*x from the closed form): original {m['p']} = symbolic x, others 0 => decode Ok, exactly the missing originals are returned, each 2 bytes, byte-identical to the data",
                              encodes=dec_encodes(R), bounds=f"2-byte shards; config ({m['k']},{m['r']}); this erasure pattern; unwind 66", timeout=1500, mem_gb=8,
                              stubs=stubs, symbolic="the 16-bit symbol of one original", tiers=tiers))
        else:
            hs.append(Harness(f"gen::c01g::{m['name']}", "C01",
                              f"known answer: real {R}RateDecoder<SpecEngine> ({m['k']},{m['r']}) on concrete data (recovery bytes from the REAL encoder, natively) restores the originals",
                              encodes=dec_encodes(R), bounds="concrete input", timeout=1500, mem_gb=8, stubs=stubs, symbolic="",
                              tiers=("quick", "thorough") if any(x[:3] == (m["rate"], m["k"], m["r"]) for x in quick) else ("thorough",)))
    return Plan(hs,
                assumptions=["SpecEngine = executable engine contract incl. the eval_poly contract (locator logs for positions < 16; marks beyond position 16 uniform, probed at 3 fixed positions); real engines refine it: C15/C03 (eval_poly's own body is NOT decided, DESIGN 6/C15)",
                             "given recovery shards are G*x with G the closed form of C02 (so encode+decode round trip = C02 + this)",
                             "basis form + additivity of decode for a fixed pattern => all data; additivity is decided for 7 configuration/pattern pairs in the thorough tier (dec_additive_*), elsewhere it is an assumption",
                             "low rate: [T]::fill longer than 64 elements replaced by a ghost-range model (CBMC cannot unwind the 65k-iteration fill)"],
                outside=["work size > 8", "patterns not enumerated for k+r > 5 (maximal-loss + surplus patterns only)", "shard sizes other than 2 bytes (C04)",
                         "default-rate codec rounds (enum payload defeats CBMC constant propagation: >15 min for a (2,1) round; its delegation is C09)"],
                trusted_base=COMMON_TRUSTED)
