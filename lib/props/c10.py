import families
from runner import Harness, FULL

RV = FULL + ["-Z", "restrict-vtable"]
from . import Plan, register, COMMON_TRUSTED

RS_STUB = ["std::hash::RandomState::new -> c10::fixed_random_state (fixed hasher keys; Kani cannot model getrandom)"]


@register("C10")
def plan(ctx):
    fam = families.c10_family()
    hs = []
    for n, m in enumerate(fam):
        if m["kind"] == "decode":
            norec = len(m["lr"]) == 0
            hs.append(Harness(f"gen::c10g::{m['name']}", "C10",
                              f"one-shot decode({m['k']},{m['r']}) with {len(m['lo'])} original entries (lengths {m['lo']}) and {len(m['lr'])} recovery entries (lengths {m['lr']}), UNBOUNDED symbolic indexes: Err iff a documented precondition is violated, the Err is truthful (variant and fields name something the input really violates), Ok(empty) when all originals are given validly",
                              encodes=["reed_solomon_simd::decode", "ReedSolomonDecoder::new/add_original_shard/add_recovery_shard/decode", "DefaultRateDecoder (new, adds, decode_begin)", "DefaultEngine::new (mask 0)"],
                              bounds="entry counts and lengths concrete per harness; indexes 64-bit symbolic; inputs restricted to 'violates a precondition' or 'all originals given' (success paths that restore shards are outside); unwind 19",
                              flags=RV, timeout=1500, mem_gb=10, stubs=RS_STUB, symbolic="every index, shard bytes",
                              tiers=("quick", "thorough") if (norec and n % 3 == 0) or m["name"].endswith("2_1_o2_2_rnone") or m["name"].endswith("2_1_o2_2_2_rnone") else ("thorough",)))
        else:
            hs.append(Harness(f"gen::c10g::{m['name']}", "C10",
                              f"one-shot encode({m['k']},{m['r']}) with original lengths {m['lo']}: returns the truthful Err a streaming ReedSolomonEncoder would (UnsupportedShardCount / TooFew / TooMany / InvalidShardSize / DifferentShardSize with exact fields)",
                              encodes=["reed_solomon_simd::encode", "ReedSolomonEncoder::new/add_original_shard/encode", "DefaultRateEncoder (new, adds, encode_begin)"],
                              bounds="error inputs only (a violation-free input runs a full DefaultRate round: outside); unwind 19",
                              flags=RV, timeout=1500, mem_gb=10, stubs=RS_STUB, symbolic="shard bytes",
                              tiers=("quick", "thorough") if n % 2 == 0 else ("thorough",)))
    return Plan(hs,
                assumptions=["DefaultEngine under feature mask 0 with dummy lookup tables (no feasible path of these harnesses executes engine arithmetic)",
                             "documented preconditions and per-variant truthfulness predicates transcribed into the harness (c10.rs)",
                             "equality of the one-shot success results with the streaming API's bytes follows from the code being a plain add/encode/decode sequence on ReedSolomon* objects; it is NOT decided by a solver here"],
                outside=["one-shot encode beyond the errors raised before the encoder runs (unsupported counts, no originals, invalid first shard size): TooFew/TooMany/DifferentShardSize and success paths reach ReedSolomonEncoder::encode, whose DefaultRate body does not fit CBMC", "success paths that restore at least one shard (DefaultRate round over DefaultEngine + HashMap inserts: does not fit CBMC)", "more than 3 entries per list", "shard lengths other than 0..4"],
                trusted_base=COMMON_TRUSTED)
