import random

import families
from runner import Harness, FULL
from . import Plan, register, COMMON_TRUSTED
from .c06 import CLASS

DEC_KIND = {0: "add_original_shard with index >= original_count (symbolic, unbounded)", 1: "add_recovery_shard with index >= recovery_count (symbolic, unbounded)",
            2: "add_original_shard with an index already given", 3: "add_recovery_shard with an index already given",
            4: "add_original_shard with wrong length {a}", 5: "add_recovery_shard with wrong length {a}", 6: "decode with too few shards", 7: "reset with invalid arguments [{c}]"}
ENC_KIND = {0: "add_original_shard with wrong length {a}", 1: "surplus add_original_shard", 2: "encode with too few shards", 3: "reset with invalid arguments [{c}]"}


@register("C07")
def plan(ctx):
    rnd = random.Random(ctx.seed)
    fam = families.c07_family()
    hs = []
    # quick: every call kind once per codec family (seed-chosen argument), all default-codec reset classes with an invalid shard size
    groups = {}
    for m in fam:
        groups.setdefault((m["kind"], m["tag"], m["call"]), []).append(m)
    quick = set()
    for key, ms in sorted(groups.items()):
        if key[1] in ("high32", "low23"):
            continue
        quick.add(rnd.choice(ms)["name"])
    for m in fam:
        if m["codec"].startswith("Default") and m["call"] in (3, 7) and m["arg"] in (7, 9, 10):
            quick.add(m["name"])
    for m in fam:
        is_dec = m["kind"] == "dec_failed"
        table = DEC_KIND if is_dec else ENC_KIND
        what = table[m["call"]].format(a=m["arg"], c=CLASS.get(m["arg"], ""))
        hs.append(Harness(f"gen::c07g::{m['name']}", "C07",
                          f"{m['codec']} ({m['k']},{m['r']}) holding shards: {what} returns Err and the complete internal state (configuration, counters, received bitmap, every byte of working memory, buffer pointers/capacity, inner rate) is unchanged"
                          + ("; the round is then completed: remaining adds and encode/decode return Ok" if m["finish"] else ""),
                          encodes=["DecoderWork::add_*_shard / EncoderWork::add_original_shard", "decode_begin / encode_begin", "RateEncoder/RateDecoder::reset (dedicated and DefaultRate mem::take path)"]
                          + (["RateDecoder::decode / RateEncoder::encode"] if m["finish"] else []),
                          bounds="prefix: one original (+ one recovery) shard given; 2-byte shards; failing-call class as named (index unbounded symbolic where applicable)",
                          flags=FULL, timeout=1500, mem_gb=8 if m['finish'] or m['codec'].startswith('Default') else 4,
                          stubs=["core::slice::specialize::SpecFill::spec_fill -> stubs::stub_spec_fill"] if m.get("stub") else [],
                          symbolic="shard bytes; index / reset arguments not fixed by the class",
                          tiers=("quick", "thorough") if m["name"] in quick else ("thorough",)))
    return Plan(hs, assumptions=["NullEngine; state observed through the read-only verif-hooks views (hidden state outside the view: none in EncoderWork/DecoderWork/Shards; FixedBitSet capacity is not compared)",
                                 "same state => same later behaviour (the codecs are deterministic functions of their state)"],
                outside=["prefixes other than one original (+ one recovery) shard", "failing calls after a completed round", "continuations on DefaultRate codecs beyond state equality (rounds on them do not fit CBMC, see C09)",
                         "ReedSolomonEncoder/Decoder wrappers (delegation: C09)"],
                trusted_base=COMMON_TRUSTED)
