import random

import families
from runner import Harness, FUNC, FULL
from . import Plan, register, COMMON_TRUSTED
from .c01 import FILL_STUB


@register("C04")
def plan(ctx):
    rnd = random.Random(ctx.seed)
    fam = families.c04_family()
    quick = set()
    by = {}
    for m in fam:
        by.setdefault(m["kind"], []).append(m)
    quick.update(m["name"] for m in by["layout_enc"] if m["sb"] in (2, 30, 66, 128, 194, 320) and m["rate"] == ("high" if m["sb"] % 4 else "low"))
    quick.update(m["name"] for m in by["layout_range"] if (m["rate"], m["r"], m["sb"]) in (("high", 5, 66), ("low", 9, 130), ("high", 8, 190), ("low", 4, 30)))
    quick.update(m["name"] for m in rnd.sample(by["layout_work"], 5))
    quick.update(m["name"] for m in rnd.sample([m for m in by["enc_slot"] if m["sb"] <= 66 and m["k"] + m["r"] == 3], 3))
    quick.update(m["name"] for m in rnd.sample([m for m in by["enc_slot"] if m["sb"] == 30 and m["k"] + m["r"] == 5], 1))
    quick.update(m["name"] for m in rnd.sample([m for m in by["dec_slot"] if m["sb"] <= 30 and m["k"] + m["r"] == 3], 2))
    hs = []
    for m in fam:
        tiers = ("quick", "thorough") if m["name"] in quick else ("thorough",)
        if m["kind"] == "layout_enc":
            hs.append(Harness(f"gen::c04g::{m['name']}", "C04",
                              f"shard size {m['sb']}: a fully symbolic shard through the real {m['rate']}-rate encoder (1,1) over the null engine comes back as a recovery shard of exactly {m['sb']} bytes with every symbol slot (nondeterministic slot index) byte-identical: Shards::insert and undo_last_chunk_encoding are inverse",
                              encodes=["Shards::insert", "Shards::undo_last_chunk_encoding", "EncoderWork::recovery (slicing to shard_bytes)", "Shards::resize/index"],
                              bounds=f"shard size {m['sb']} (sizes cover every tail class and 0..5 whole blocks)", flags=FULL, timeout=1500, mem_gb=8,
                              symbolic="all shard bytes, the slot index", tiers=tiers))
        elif m["kind"] == "layout_range":
            hs.append(Harness(f"gen::c04g::{m['name']}", "C04",
                              f"shard size {m['sb']}: one fully symbolic original through the real {m['rate']}-rate encoder (1,{m['r']}) over an engine whose fft only copies the first shard of its range onto the others: every one of the {m['r']} recovery shards has exactly {m['sb']} bytes and equals the original in every symbol slot (nondeterministic slot index): undo_last_chunk_encoding inverts insert for every shard of a multi-shard range",
                              encodes=["Shards::insert", "Shards::undo_last_chunk_encoding (range of several shards)", "EncoderWork::recovery", "EncoderWork::undo_last_chunk_encoding", "ShardsRefMut::copy_within / zero"],
                              bounds=f"shard size {m['sb']}, {m['r']} recovery shards, one original", flags=FULL, timeout=1500, mem_gb=8,
                              symbolic="all shard bytes, the slot index", tiers=tiers))
        elif m["kind"] == "layout_work":
            hs.append(Harness(f"gen::c04g::{m['name']}", "C04",
                              f"shard size {m['sb']}, slot {m['q']}: inside the working space the symbol sits at the documented place (full block: byte lane and lane+32; final block of t bytes: low bytes first, then t/2 high bytes, at lane and lane+32) and shards occupy ceil(size/64) blocks - observed by an engine that only looks",
                              encodes=["Shards::insert", "EncoderWork::add_original_shard", "ShardsRefMut indexing"], bounds="concrete slot; unwind 140", flags=FULL, timeout=1500, mem_gb=8,
                              symbolic="all shard bytes", tiers=tiers))
        elif m["kind"] == "enc_slot":
            R = "High" if m["rate"] == "high" else "Low"
            hs.append(Harness(f"gen::c04g::{m['name']}", "C04",
                              f"real {R}RateEncoder<SpecEngine> ({m['k']},{m['r']}) with {m['sb']}-byte shards: slot {m['q']} of original {m['p']} = x, slot {m['q']} of the other originals = 0, EVERY other byte of every original arbitrary: each recovery shard has {m['sb']} bytes and its slot {m['q']} equals G[j][{m['p']}]*x",
                              encodes=[f"{R}RateEncoder::encode", "Shards::insert/undo_last_chunk_encoding", "xor_within / copy_within / zero on multi-block shards"],
                              bounds="concrete slot and position; unwind 140", timeout=2400, mem_gb=12, symbolic="every byte of every original", tiers=tiers))
        else:
            R = "High" if m["rate"] == "high" else "Low"
            hs.append(Harness(f"gen::c04g::{m['name']}", "C04",
                              f"real {R}RateDecoder<SpecEngine> ({m['k']},{m['r']}) with {m['sb']}-byte shards (given originals {m['om']:b}, recovery {m['rm']:b}): slot {m['q']} carries a code word, every other byte of every given shard is arbitrary: restored shards have {m['sb']} bytes and their slot {m['q']} is the original symbol",
                              encodes=[f"{R}RateDecoder::decode", "Shards::insert/undo_last_chunk_encoding", "formal_derivative / xor_within on multi-block shards"],
                              bounds="concrete slot; unwind 140", timeout=2400, mem_gb=12, stubs=[FILL_STUB] if m.get("stub") else [], symbolic="every byte of every given shard", tiers=tiers))
    return Plan(hs,
                assumptions=["SpecEngine contract applied lane by lane (the real engines' lane-locality: C15 checks all 32 lanes of a block independently, mul on 2 blocks; C03 miters)",
                             "same symbols as coding every slot on its own: slot q output = G*x_q is exactly what the 2-byte codec computes (C02)"],
                outside=["shard sizes beyond 322 bytes for the layout, beyond 130 bytes for slot independence through the codecs", "slots other than the first/last/block-boundary ones in the slot-independence harnesses (layout harnesses: all slots)", "configurations beyond (3,2)/(2,3)"],
                trusted_base=COMMON_TRUSTED)
