import random

import families
from runner import Harness, FULL
from . import Plan, register, COMMON_TRUSTED

ADD_ENC = ["DecoderWork::add_original_shard", "DecoderWork::add_recovery_shard", "Shards::insert", "FixedBitSet::set"]

CLASS = {0: "original_count=0", 1: "recovery_count=0", 2: "original_count=65536", 3: "recovery_count=65536", 4: "original_count=usize::MAX",
         5: "recovery_count=usize::MAX", 6: "(40000,40000)", 7: "supported counts, shard_bytes=0", 8: "supported counts, shard_bytes=1",
         9: "supported counts, shard_bytes=3", 10: "supported counts, shard_bytes=usize::MAX"}


@register("C06")
def plan(ctx):
    rnd = random.Random(ctx.seed)
    hs = []
    for n, cfg in (("dec_adds_high_3_1", "HighRateDecoder (3,1)"), ("dec_adds_low_1_3", "LowRateDecoder (1,3)"),
                   ("dec_adds_high_4_4", "HighRateDecoder (4,4)"), ("dec_adds_low_4_4", "LowRateDecoder (4,4)")):
        hs.append(Harness(f"c06::{n}", "C06",
                          f"{cfg}: 3 arbitrary add_original/add_recovery calls (any may fail) from a fresh decoder; each Result checked: Ok iff no precondition violated, Err truthful (variant+fields); no panic",
                          encodes=ADD_ENC, bounds="index: unbounded 64-bit; shard length 0..=6; 3 calls; shard_bytes=2; unwind 20",
                          flags=FULL, timeout=900, mem_gb=6, symbolic="kind, index (usize), length, shard bytes of each call"))
    for n in ("new_invalid_high_enc", "new_invalid_low_enc", "new_invalid_default_enc", "new_invalid_high_dec", "new_invalid_low_dec", "new_invalid_default_dec"):
        hs.append(Harness(f"c06::{n}", "C06",
                          "new(o,r,s) with fully symbolic INVALID arguments returns Err whose variant/fields describe a violated precondition; no panic",
                          encodes=["RateEncoder::new / RateDecoder::new", "Rate::validate", "use_high_rate"],
                          bounds="none on the Err side (three 64-bit usize); Ok side: see C08/C01", flags=FULL, timeout=900, mem_gb=6,
                          symbolic="original_count, recovery_count, shard_bytes"))
    for n in ("reset_invalid_high_enc", "reset_invalid_low_enc", "reset_invalid_high_dec", "reset_invalid_low_dec"):
        hs.append(Harness(f"c06::{n}", "C06",
                          "reset(o,r,s) with fully symbolic INVALID arguments on an object holding one shard: Err truthful, and the next add call does not panic",
                          encodes=["RateEncoder::reset / RateDecoder::reset", "Rate::validate"],
                          bounds="none on the arguments (three 64-bit usize)", flags=FULL, timeout=900, mem_gb=6,
                          symbolic="original_count, recovery_count, shard_bytes"))
    RV = FULL + ["-Z", "restrict-vtable"]
    for n, what in (("rs_dec_index_calls_2_1", "ReedSolomonDecoder (2,1): two add_original and one add_recovery call with unbounded symbolic indexes (correct length), each Result exact (Ok / Invalid*ShardIndex / DuplicateOriginalShardIndex)"),
                    ("rs_dec_index_calls_1_2", "ReedSolomonDecoder (1,2): the same three calls"),
                    ("rs_enc_add_calls_2_1", "ReedSolomonEncoder (2,1): valid add, wrong-length add (DifferentShardSize exact), surplus add (TooManyOriginalShards exact)"),
                    ("rs_reset_class_dec_c9", "ReedSolomonDecoder holding a shard: reset(supported counts, shard size 3) is a truthful Err and the next add does not panic"),
                    ("rs_reset_class_enc_c0", "ReedSolomonEncoder holding a shard: reset(original_count = 0, ...) is a truthful Err and the next add does not panic")):
        hs.append(Harness(f"c06::{n}", "C06", what + " (top-level API = DefaultRate over DefaultEngine, feature mask 0, dummy tables)",
                          encodes=["ReedSolomonEncoder/ReedSolomonDecoder::{new, add_*_shard, reset}", "DefaultEngine::new"], bounds="index/arguments 64-bit symbolic; 2-byte shards; unwind 20",
                          flags=RV, timeout=1200, mem_gb=10, symbolic="indexes / configuration arguments, shard bytes",
                          tiers=("quick", "thorough") if n in ("rs_dec_index_calls_2_1", "rs_reset_class_dec_c9") else ("thorough",)))
    fam = families.c06_family()
    # decode patterns: quick = per codec one not-enough, the complete one, and two seed-chosen sufficient ones
    by_codec = {}
    for m in fam:
        if m["kind"] == "dec_pattern":
            by_codec.setdefault((m["codec"], m["k"], m["r"]), []).append(m)
    quick = set()
    for key, ms in sorted(by_codec.items()):
        suff = [m for m in ms if m["enough"] and not m["complete"]]
        short = [m for m in ms if not m["enough"]]
        quick.add(rnd.choice(short)["name"])
        quick.update(m["name"] for m in rnd.sample(suff, 2))
        quick.add(next(m for m in ms if m["complete"] and m["rm"] == 1)["name"])
    for m in fam:
        if m["kind"] == "dec_pattern":
            hs.append(Harness(f"gen::c06g::{m['name']}", "C06",
                              f"{m['codec']} ({m['k']},{m['r']}), originals mask {m['om']:b}, recovery mask {m['rm']:b}: adds Ok; decode Ok iff enough shards else NotEnoughShards with exact counts; restored_original(i) is Some exactly for missing originals; decode body panic-free (full check set)",
                              encodes=ADD_ENC + ["DecoderWork::decode_begin", "RateDecoder::decode (rate layer incl. formal_derivative, xor_within, zero)", "DecoderResult::restored_original"],
                              bounds="concrete received set, symbolic shard bytes (2-byte shards); unwind 66", flags=FULL, timeout=1200, mem_gb=8,
                              stubs=["core::slice::specialize::SpecFill::spec_fill -> stubs::stub_spec_fill"] if m.get("stub") else [],
                              symbolic="bytes of every given shard", tiers=("quick", "thorough") if m["name"] in quick else ("thorough",)))
        elif m["kind"] == "adds_after_reset":
            a = m["a"]
            hs.append(Harness(f"gen::c06g::{m['name']}", "C06",
                              f"{m['codec']} configured ({a[0]},{a[1]}) with originals {a[2]:b} / recovery {a[3]:b} added and no decode, then a valid reset to ({m['k']},{m['r']}): the next 3 arbitrary add calls (unbounded symbolic indexes) are Ok iff no precondition is violated, exactly as on a fresh decoder",
                              encodes=ADD_ENC + ["DecoderWork::reset", "FixedBitSet::clear/grow"], bounds="one history shape per harness; index 64-bit symbolic; unwind 20",
                              flags=FULL, timeout=900, mem_gb=6, symbolic="kind, index, length, bytes of each call"))
        elif m["kind"] == "enc_calls":
            hs.append(Harness(f"gen::c06g::{m['name']}", "C06",
                              f"{m['codec']} ({m['k']},{m['r']}): {m['good']} valid adds, one add of wrong length {m['len']} (Err truthful), surplus add -> TooManyOriginalShards, encode Ok iff all originals given else TooFewOriginalShards exact",
                              encodes=["EncoderWork::add_original_shard", "EncoderWork::encode_begin", "RateEncoder::encode", "Shards::insert"],
                              bounds="wrong length concrete per harness in {0,1,3,4,6}; unwind 66", flags=FULL, timeout=1200, mem_gb=8,
                              symbolic="bytes of all shards",
                              tiers=("quick", "thorough") if (m["good"], m["len"]) in ((0, 3), (m["k"], 0), (1, 6)) else ("thorough",)))
        elif m["kind"] == "reset_class":
            q = m["cls"] in (0, 4, 6, 9, 10) and "same" not in m["name"]
            hs.append(Harness(f"gen::c06g::{m['name']}", "C06",
                              f"{m['codec']} holding one shard (inner {m['frm']} rate): reset with class [{CLASS[m['cls']]}] (other arguments fully symbolic) returns a truthful Err; the next add call does not panic",
                              encodes=["DefaultRateEncoder::reset / DefaultRateDecoder::reset (mem::take path)", "use_high_rate", "Rate::validate"],
                              bounds="deciding argument concrete per class, the others 64-bit symbolic; unwind 20", flags=FULL, timeout=900, mem_gb=6,
                              symbolic="the arguments not fixed by the class", tiers=("quick", "thorough") if q else ("thorough",)))
    return Plan(hs,
                assumptions=["NullEngine model (no arithmetic): which Error is returned is independent of shard data",
                             "documented preconditions transcribed into the harness (index < count, not duplicate, length == shard_bytes, enough shards)"],
                outside=["more than 3 add calls per symbolic-index harness", "counts beyond (4,4)", "shards longer than 6 bytes", "allocation failure",
                         "reset classes other than the 11 listed for the default-rate codecs (dedicated codecs: fully symbolic)",
                         "one-shot functions: C10; encode()/decode() on ReedSolomon*/DefaultRate objects; symbolic shard lengths and fully symbolic constructor arguments on ReedSolomon* objects (out of memory; decided on the dedicated and DefaultRate<NullEngine> codecs)",
                         "complete rounds on DefaultRate codecs (enum payload defeats CBMC constant propagation; measured > 15 min for one (2,1) round): their error paths are covered here, their delegation by C09"],
                trusted_base=COMMON_TRUSTED)
