import random

import families
from runner import Harness, FULL
from . import Plan, register, COMMON_TRUSTED

KINDS = {0: "two original shards", 1: "an original and a recovery shard", 2: "two recovery shards"}


@register("C11")
def plan(ctx):
    rnd = random.Random(ctx.seed)
    fam = families.c11_family()
    by = {}
    for m in fam:
        by.setdefault((m["rate"], m["kinds"]), []).append(m)
    quick = set()
    for (rate, kinds), ms in by.items():
        quick.add(rnd.choice(ms)["name"])
        # the boundary where one of the two orders crosses the 'enough shards' threshold
        edge = [m for m in ms if families.popcount(m["po"]) + families.popcount(m["pr"]) == m["k"] - 1]
        quick.update(m["name"] for m in edge)
    hs = []
    for m in fam:
        R = "High" if m["rate"] == "high" else "Low"
        hs.append(Harness(f"gen::c11g::{m['name']}", "C11",
                          f"{R}RateDecoder<NullEngine> ({m['k']},{m['r']}), prefix originals {m['po']:b} / recovery {m['pr']:b}: adding {KINDS[m['kinds']]} (symbolic valid indexes, symbolic bytes) in either order leaves twin decoders in the same logical state (configuration, counters, bitmap, all bytes of working memory) and all four calls return Ok",
                          encodes=["DecoderWork::add_original_shard", "DecoderWork::add_recovery_shard", "Shards::insert", "FixedBitSet::set"],
                          bounds="2-byte shards; this prefix; adjacent transposition of two calls; unwind 66", flags=FULL, timeout=900, mem_gb=6,
                          symbolic="both indexes (all valid values), bytes of all shards", tiers=("quick", "thorough") if m["name"] in quick else ("thorough",)))
    return Plan(hs,
                assumptions=["every permutation is a product of adjacent transpositions; decode is a deterministic function of the compared state (views cover every field of DecoderWork and Shards)",
                             "surplus shards / given originals never reported / all originals given => empty result: decided by the pattern families of C01, C06 and C12 (all subsets with >= k members for k+r <= 5)"],
                outside=["configurations beyond (3,2)/(2,3)", "prefixes other than those enumerated (empty, and the lowest-index shapes with k-1 / k shards already given)", "shard sizes other than 2 bytes"],
                trusted_base=COMMON_TRUSTED)
