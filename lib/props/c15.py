import random

import families
from runner import Harness, FUNC, FULL
from . import Plan, register, COMMON_TRUSTED

PSHUFB = ["std::arch::x86_64::_mm_shuffle_epi8 -> c15::shuf::mm_shuffle_epi8 (Rust model)", "std::arch::x86_64::_mm256_shuffle_epi8 -> c15::shuf::mm256_shuffle_epi8 (Rust model)"]
ENG_FNS = {
    "nosimd": ["NoSimd::fft_private", "NoSimd::ifft_private", "NoSimd::fft_butterfly_two_layers", "NoSimd::ifft_butterfly_two_layers", "NoSimd::mul_add", "NoSimd::mul", "utils::xor", "ShardsRefMut::dist2_mut/dist4_mut"],
    "ssse3": ["Ssse3::fft_private_ssse3", "Ssse3::ifft_private_ssse3", "Ssse3::mul_ssse3", "Ssse3::mul_128/muladd_128/fftb_128/ifftb_128"],
    "avx2": ["Avx2::fft_private_avx2", "Avx2::ifft_private_avx2", "Avx2::mul_avx2", "Avx2::mul_256/muladd_256/fftb_256/ifftb_256", "LutAvx2::from"],
    "naive": ["Naive::fft", "Naive::ifft", "Naive::mul", "Naive::mul_add", "tables::mul"],
    "neon": ["engine_neon.rs ported textually: Neon::fft_private_neon", "Neon::ifft_private_neon", "Neon::mul_neon", "Neon::mul_128/muladd_128/fftb_128/ifftb_128 over neon_emul::{vld1q_u8,vst1q_u8,veorq_u8,vandq_u8,vdupq_n_u8,vshrq_n_u8,vqtbl1q_u8}"],
}


def select(rnd, fam, tier_all=False):
    """quick-tier members of the primitive family (shared by C15, C03 and C13).
    Budget: every quick command must finish well inside 15 min on a machine 2-3x slower than
    this one, so size-4 additivity, size-8 basis and most size-8 miters are thorough-tier only."""
    q = set()
    tuples = sorted({(m["op"], m["size"], m["trunc"], m["delta"]) for m in fam if m["kind"] == "basis"})
    t4 = [t for t in tuples if t[1] == 4]
    t2 = [t for t in tuples if t[1] == 2]
    f4 = rnd.choice([t for t in t4 if t[0] == "fft" and t[2] < 4])      # truncated fft, size 4
    i4 = rnd.choice([t for t in t4 if t[0] == "ifft"])
    s2 = [rnd.choice([t for t in t2 if t[0] == "fft"]), rnd.choice([t for t in t2 if t[0] == "ifft"])]
    odd_delta = rnd.choice([0, 2, 4, 65534])
    odd_trunc = rnd.choice([3, 5])
    for m in fam:
        key = (m.get("op"), m.get("size"), m.get("trunc"), m.get("delta"))
        if m["kind"] == "basis":
            if key in s2 or key == ("fft", 2, 1, odd_delta):
                q.add(m["name"])
            if key == f4 and m["p"] in (0, 3):
                q.add(m["name"])
            if key == i4 and m["p"] == 0:
                q.add(m["name"])
        if m["kind"] == "additive" and key in s2:
            q.add(m["name"])
        if m["kind"] == "miter":
            if key in (f4, i4) and m["engine"] in ("ssse3", "avx2"):
                q.add(m["name"])
            if key == f4 and m["engine"] == "neon":
                q.add(m["name"])
            # every SIMD engine: a final-odd-layer fft with an odd truncated size (size 2); AVX2 also at size 8
            if key == ("fft", 2, 1, odd_delta):
                q.add(m["name"])
            if key == ("fft", 8, odd_trunc, 0) and m["engine"] == "avx2":
                q.add(m["name"])
            if key == ("ifft", 8, odd_trunc, 8) and m["engine"] == "ssse3":
                q.add(m["name"])
        if m["kind"] == "kat" and m["size"] == 4:
            q.add(m["name"])
        if m["kind"] == "mul" and m["nblocks"] == 1:
            q.add(m["name"])
    return q


def mk(m, pid, q):
    eng = m["engine"]
    tiers = ("quick", "thorough") if m["name"] in q else ("thorough",)
    stubs = PSHUFB if eng in ("ssse3", "avx2") else []
    name = f"gen::c15g::{m['name']}"
    if m["kind"] == "basis":
        valid = "outputs i < truncated_size" if m["op"] == "fft" else "all outputs (inputs beyond truncated_size are zero)"
        return Harness(name, pid, f"real NoSimd::{m['op']}(pos=1, size={m['size']}, truncated_size={m['trunc']}, skew_delta={m['delta']}): shard {m['p']} = fully symbolic 64-byte block, others 0 => {valid}, all 32 lanes, equal M[i][{m['p']}]*x with M = X_k(delta^i) from the oracle; guard shards before/after the chunk unchanged",
                       encodes=ENG_FNS[eng], bounds="one block per shard; this call tuple; unwind 128", timeout=1800, mem_gb=8, symbolic="64 bytes of one shard + 128 guard bytes", tiers=tiers)
    if m["kind"] == "basis_lane":
        return Harness(name, pid, f"real NoSimd::{m['op']}(size={m['size']}, truncated_size={m['trunc']}, skew_delta={m['delta']}): ONE symbolic symbol (lane 3) in shard {m['p']}, everything else zero => valid outputs in that lane equal M[i][{m['p']}]*x (oracle matrix)",
                       encodes=ENG_FNS[eng], bounds="one symbolic lane of one shard; this call tuple; unwind 128", timeout=3600, mem_gb=24, symbolic="one 16-bit symbol", tiers=("thorough",))
    if m["kind"] == "additive":
        return Harness(name, pid, f"real NoSimd::{m['op']}(size={m['size']}, truncated_size={m['trunc']}, skew_delta={m['delta']}): f(a)^f(b) == f(a^b) on all valid outputs for fully symbolic buffers",
                       encodes=ENG_FNS[eng], bounds="one block per shard; unwind 128", timeout=2400, mem_gb=10, symbolic=f"2 x {m['size']} x 64 bytes", tiers=tiers)
    if m["kind"] == "miter":
        return Harness(name, pid, f"{eng}::{m['op']}(pos=1, size={m['size']}, truncated_size={m['trunc']}, skew_delta={m['delta']}) produces the same bytes as NoSimd on identical fully symbolic buffers, every byte of every shard incl. the two guard shards",
                       encodes=ENG_FNS[eng] + ENG_FNS["nosimd"], bounds="one block per shard; unwind 128", timeout=2400, mem_gb=10, stubs=stubs, symbolic=f"{m['size'] + 2} x 64 bytes", tiers=tiers)
    if m["kind"] == "kat":
        return Harness(name, pid, f"known answer: {eng}::{m['op']}(size={m['size']}, truncated_size={m['trunc']}, skew_delta={m['delta']}) on concrete bytes equals what the real crate computes natively (validates the CBMC model and the pshufb models)",
                       encodes=ENG_FNS[eng], bounds="concrete input", timeout=1800, mem_gb=8, stubs=stubs, symbolic="", tiers=tiers)
    if m["kind"] == "mul":
        return Harness(name, pid, f"{eng}::mul on {m['nblocks']} fully symbolic block(s) with an ARBITRARY table row that is the nibble table of an arbitrary GF(2)-linear map T (16 symbolic words), arbitrary log_m: every one of the 32 lanes becomes T(x)",
                       encodes=ENG_FNS[eng], bounds=f"{m['nblocks']} block(s); unwind 128", timeout=1800, mem_gb=8, stubs=stubs, symbolic="16 table words, log_m, all block bytes", tiers=tiers)
    return Harness(name, pid, f"Naive::mul(log_m={m['log_m']}) equals NoSimd::mul on a symbolic symbol (one lane): exp/log path vs nibble-table path",
                   encodes=ENG_FNS["naive"] + ["NoSimd::mul"], bounds="one symbolic lane (exp/log statics are indexed symbolically)", timeout=7200, mem_gb=12, symbolic="one 16-bit symbol", tiers=("thorough",))


@register("C15")
def plan(ctx):
    rnd = random.Random(ctx.seed)
    fam = families.c15_family()
    q = select(rnd, fam)
    hs = [mk(m, "C15", q) for m in fam if (m["kind"] in ("basis", "basis_lane", "additive", "kat") and m["engine"] == "nosimd") or (m["kind"] == "mul" and m["engine"] != "neon")]
    for n, what in (("add_sub_mod_all_inputs_h", "add_mod / sub_mod are addition / subtraction modulo 65535 for all 2^32 operand pairs incl. the 0/65535 double zero"),
                    ("fwht_2_all_inputs_h", "fwht_2 is (a+b, a-b) modulo 65535 for all 2^32 pairs")):
        hs.append(Harness(f"c15e::{n}", "C15", what, encodes=["utils::add_mod", "utils::sub_mod", "fwht::fwht_2"], bounds="none (two 16-bit operands)", flags=FULL, timeout=600, mem_gb=4,
                          symbolic="both operands"))
    for n in ("fwht_4_at_0_1", "fwht_4_at_65532_1", "fwht_4_at_12_4", "fwht_4_at_0_16384", "fwht_4_at_16383_16384"):
        hs.append(Harness(f"c15e::{n}", "C15", "fwht_4 at a concrete (offset, dist): the four entries become the radix-4 Walsh butterfly of their values modulo 65535, neighbours untouched, no index overflow",
                          encodes=["fwht::fwht_4", "fwht::fwht_2"], bounds="concrete position (first, last, middle, largest dist); symbolic values", flags=FULL, timeout=900, mem_gb=6,
                          symbolic="four 16-bit values", tiers=("quick", "thorough") if n in ("fwht_4_at_65532_1", "fwht_4_at_16383_16384") else ("thorough",)))
    import zcheck
    zq = zcheck.table_queries(ctx)
    return Plan(hs,
                assumptions=["tables: the sparse rows/skew handed to the engines are dumped from the REAL initialisers on every run; their definitions are the z3 obligations T1-T5 of this check",
                             "basis (every input position) + additivity => the primitive equals the oracle matrix for all data (linear algebra outside the solver)",
                             "mul: arbitrary-linear-row proof composed with T2/T3 (every real row is the nibble table of multiplication by g^m) gives all 2^32 (symbol, log_m) pairs",
                             "other engines: C03 miters against NoSimd"],
                outside=["FFT sizes > 8 with fully symbolic blocks (sizes 16 and 32: one symbolic lane, 9 call tuples, thorough tier); sizes > 32", "more than one 64-byte block per shard in fft/ifft harnesses (lane/block locality: mul harness with 2 blocks; C04)",
                         "eval_poly end to end and the fwht loop schedule: NOT decided (65536-point transforms cannot be executed by CBMC; DESIGN 6/C15); only add_mod/sub_mod/fwht_2/fwht_4 are",
                         "skew offsets other than {0, size, 2*size, 65536-size}"],
                trusted_base=COMMON_TRUSTED + ["z3 4.8.12"], zqueries=zq, run_z=zcheck.run_queries)


@register("C03")
def plan03(ctx):
    rnd = random.Random(ctx.seed)
    fam = families.c15_family()
    q = select(rnd, fam)
    hs = [mk(m, "C03", q) for m in fam if m["kind"] in ("miter", "mul_naive") or (m["kind"] == "kat" and m["engine"] != "nosimd") or (m["kind"] == "mul" and m["engine"] == "neon")]
    return Plan(hs,
                assumptions=["pshufb (128/256-bit) replaced by Rust models, validated by the known-answer harnesses against native execution",
                             "mul of Ssse3/Avx2/NoSimd: identical because each equals the same linear map of its row (C15 mul harnesses) and MUL128 = byte planes of MUL16 (C15 z3 obligation T3)",
                             "end to end: every engine refining the contract yields the same codec bytes (C01/C02 over the contract)",
                             "DefaultEngine = one of these engines behind Box<dyn Engine> (selection: C14)"],
                outside=["the Naive engine: NOT decided by the solver (every path reads the 65536-entry exp/log statics at data-dependent indexes; full-block miter, one-lane miter, a concrete known answer and even Naive::mul on one symbolic symbol run out of memory or time under CBMC). What is decided about it: its tables (C15 z3 T1: exp/log are the true exponential/logarithm), add_mod (C15), and eval_poly delegation (C14)", "AArch64 hardware (the Neon SOURCE runs on 7 emulated intrinsics written from the Arm pseudo-code)", "FFT sizes > 8 (Naive: > 4)", "eval_poly bodies (all engines delegate to utils::eval_poly: C14 marker harness)"],
                trusted_base=COMMON_TRUSTED)
