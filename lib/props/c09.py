import random

import families
from runner import Harness, FULL
from . import Plan, register, COMMON_TRUSTED


@register("C09")
def plan(ctx):
    rnd = random.Random(ctx.seed)
    fam = families.c09_family()
    hs = [Harness("c09::rule_all_pairs_h", "C09",
                  "use_high_rate(o,r) == Ok(npow2(o) > npow2(r) || (equal && o <= r)) for every pair in the envelope, the named dedicated codec supports the pair, and Err(UnsupportedShardCount{o,r}) outside",
                  encodes=["rate_default::use_high_rate"], bounds="none: two fully symbolic 64-bit usize", flags=FULL, timeout=600, mem_gb=3,
                  symbolic="original_count, recovery_count: all 2^128 pairs")]
    groups = {}
    for m in fam:
        groups.setdefault((m["kind"], m.get("side"), m.get("high"), m.get("cross")), []).append(m)
    quick = set()
    for key, ms in sorted(groups.items(), key=str):
        for m in rnd.sample(ms, min(2, len(ms))):
            quick.add(m["name"])
    # all encoder reset pairs are cheap (about 20 s): every rate transition and target shape on every change
    quick.update(m["name"] for m in fam if m["kind"] == "reset")
    for m in fam:
        tiers = ("quick", "thorough") if m["name"] in quick else ("thorough",)
        if m["kind"] == "new":
            hs.append(Harness(f"gen::c09g::{m['name']}", "C09",
                              f"DefaultRate{'Encoder' if m['side']=='enc' else 'Decoder'}::new({m['k']},{m['r']},{m['sb']}) holds the {'high' if m['high'] else 'low'}-rate codec (the rule) and its complete internal state equals that of the dedicated codec's new()",
                              encodes=["DefaultRateEncoder::new / DefaultRateDecoder::new", "HighRate*/LowRate*::new", "EncoderWork::reset / DecoderWork::reset"],
                              bounds="concrete configuration", flags=FULL, timeout=900, mem_gb=6, symbolic="", tiers=tiers))
        elif m["kind"] == "reset":
            hs.append(Harness(f"gen::c09g::{m['name']}", "C09",
                              f"DefaultRate{'Encoder' if m['side']=='enc' else 'Decoder'} {m['a']} with shards added, reset to {m['b']} ({'rate switches' if m['cross'] else 'same rate'}): inner rate = rule, configuration/counters/layout equal a fresh dedicated codec, no shard counted, no received bit left",
                              encodes=["DefaultRate*::reset (both branches per inner rate)", "into_parts", "HighRate*/LowRate*::new(Some(work))/reset"],
                              bounds="concrete configuration pair", flags=FULL, timeout=1200, mem_gb=14, symbolic="shard bytes", tiers=tiers))
        elif m["kind"] == "deleg_dec":
            hs.append(Harness(f"gen::c09g::{m['name']}", "C09",
                              f"DefaultRateDecoder ({m['k']},{m['r']}) vs dedicated {m['rate']}-rate decoder: add_original(i), add_recovery(j, length {m['ln']}), add_original(i) again with UNBOUNDED symbolic i, j return identical Results and leave identical state",
                              encodes=["DefaultRateDecoder::add_original_shard/add_recovery_shard (match arms)", "DecoderWork::add_*"],
                              bounds="three calls; indexes 64-bit symbolic; 2-byte shards", flags=FULL, timeout=900, mem_gb=6, symbolic="both indexes, shard bytes", tiers=tiers))
        elif m["kind"] == "deleg_enc":
            hs.append(Harness(f"gen::c09g::{m['name']}", "C09",
                              f"DefaultRateEncoder ({m['k']},{m['r']}) vs dedicated {m['rate']}-rate encoder: add (Ok), add with length {m['ln']}, add again: identical Results and identical state",
                              encodes=["DefaultRateEncoder::add_original_shard/encode (match arms)", "EncoderWork::add_original_shard/encode_begin"],
                              bounds="three calls; 2-byte shards", flags=FULL, timeout=900, mem_gb=6, symbolic="shard bytes", tiers=tiers))
        else:
            hs.append(Harness(f"gen::c09g::{m['name']}", "C09",
                              f"DefaultRateDecoder ({m['k']},{m['r']}) vs dedicated {m['rate']}-rate decoder: decode with {'all originals given (empty result)' if m['complete'] else 'too few shards (identical Err)'}; identical state afterwards",
                              encodes=["DefaultRateDecoder::decode (match arms)", "DecoderWork::decode_begin", "DecoderResult"],
                              bounds="concrete received set", flags=FULL, timeout=900, mem_gb=6, symbolic="shard bytes", tiers=tiers))
    import mir2smt
    return Plan(hs, zqueries=["MIR_use_high_rate"], run_z=lambda c, tier: [z for z in mir2smt.run(c) if z["name"] in ("MIR_use_high_rate", "MIR_translation")],
                assumptions=["NullEngine", "second verdict for the rule: MIR of use_high_rate -> SMT (z3 and cvc5), see C08", "the DefaultRate methods are thin match-arm delegations, so equal Results and equal state on the exercised arms (add_original_shard / add_recovery_shard) plus equal construction state (b) carry the dedicated codecs' round behaviour (C01/C02) over to the default codec; the encode()/decode() arms themselves are NOT executed (see outside)",
                             "ReedSolomonEncoder/Decoder are newtype wrappers of DefaultRate*<DefaultEngine> (one-line delegations); their supports() is decided in C08, their error paths in C10"],
                outside=["byte-for-byte comparison of complete rounds through DefaultRate/ReedSolomon/one-shot objects: NOT decided (the codec state inside an enum payload makes CBMC lose constant propagation; one (2,1) encode round exceeded 15 min versus 18 s for the dedicated codec)",
                         "a successful reset of a DefaultRateDecoder (CBMC out of memory even for (1,2)->(1,1)): its rate choice is decided only through the rule (a), construction (b) and the encoder's reset; failing resets: C06/C07",
                         "configurations beyond those enumerated (22 for new, 12 encoder reset pairs)"],
                trusted_base=COMMON_TRUSTED)
