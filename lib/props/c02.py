import random

import families
from runner import Harness, FUNC
from . import Plan, register, COMMON_TRUSTED

RATE_ENC = ["{R}RateEncoder::new", "EncoderWork::reset/add_original_shard/encode_begin", "Shards::insert", "{R}RateEncoder::encode (chunk loops, zero, xor_within, copy_within, ifft_skew_end/fft_skew_end)",
            "Shards::undo_last_chunk_encoding", "EncoderResult::recovery"]


def pick_configs(rnd, fam_small):
    """quick tier: per rate one multi-chunk config, one with a partial last chunk, one seed-chosen"""
    chosen = set()
    for rate in ("high", "low"):
        cfgs = sorted({(m["k"], m["r"]) for m in fam_small if m["rate"] == rate})
        multi = [(k, r) for k, r in cfgs if (rate == "high" and k > families.npow2(r)) or (rate == "low" and r > families.npow2(k))]
        partial = [(k, r) for k, r in multi if (k % families.npow2(r) if rate == "high" else r % families.npow2(k))]
        chosen.add((rate,) + rnd.choice(partial))
        chosen.add((rate,) + rnd.choice(multi))
        chosen.add((rate,) + rnd.choice(cfgs))
        # most chunk-loop iterations within the bound
        chosen.add((rate, 7, 1) if rate == "high" else (rate, 1, 7))
        chosen.add((rate, 6, 1) if rate == "high" else (rate, 1, 6))
    return chosen


@register("C02")
def plan(ctx):
    rnd = random.Random(ctx.seed)
    fam = families.c02_family()
    small = [m for m in fam if m["small"] and m["kind"] == "enc_basis"]
    quick_cfg = pick_configs(rnd, small)
    hs = []
    for m in fam:
        R = "High" if m["rate"] == "high" else "Low"
        enc = [e.replace("{R}", R) for e in RATE_ENC]
        q = (m["rate"], m["k"], m["r"]) in quick_cfg
        tiers = ("quick", "thorough") if q else ("thorough",)
        if m["kind"] == "enc_basis":
            hs.append(Harness(f"gen::c02g::{m['name']}", "C02",
                              f"real {R}RateEncoder<SpecEngine> ({m['k']},{m['r']}): original {m['p']} = symbolic x, others 0 => every recovery symbol j equals G[j][{m['p']}]*x with G from the closed form (oracle); exactly r shards of 2 bytes",
                              encodes=enc, bounds=f"2-byte shards (one symbol slot), config ({m['k']},{m['r']}), unwind 66", timeout=900, mem_gb=6,
                              symbolic="the 16-bit symbol of one original", tiers=tiers))
        elif m["kind"] == "enc_kat":
            hs.append(Harness(f"gen::c02g::{m['name']}", "C02",
                              f"known answer: real {R}RateEncoder<SpecEngine> ({m['k']},{m['r']}) on concrete originals equals the bytes the real crate (NoSimd) produces natively",
                              encodes=enc, bounds="concrete input", timeout=900, mem_gb=6, symbolic="", tiers=tiers))
        elif m["kind"] == "false_twin":
            hs.append(Harness(f"gen::c02g::{m['name']}", "C02",
                              "deliberately false twin (wrong generator column): must be refuted", encodes=enc, bounds="", timeout=900, mem_gb=6,
                              expect="FAILURE", symbolic="one symbol"))
    return Plan(hs,
                assumptions=["SpecEngine = executable engine contract (fft exact below truncated_size for any input and garbage beyond; ifft requires a zero tail; oracle matrices X_k(delta^i)); every real engine refines it: C15/C03",
                             "basis + additivity (C13) => equality with G for all data: one line of linear algebra outside the solver",
                             "oracle (lib/oracle.py) built from polynomial 0x1002D and the Cantor basis only; cross-checked natively against the real encoder at setup of every run (known-answer harnesses)"],
                outside=["configurations with work size > 16 (quick: 6 seed-chosen configs of work size <= 8)", "shard sizes other than 2 bytes here (slot independence: C04)",
                         "byte-equality with reed-solomon-16 0.1.0 is anchored only through the closed form"],
                trusted_base=COMMON_TRUSTED)


@register("C13")
def plan13(ctx):
    rnd = random.Random(ctx.seed)
    fam = families.c02_family()
    small = [m for m in fam if m["small"] and m["kind"] == "enc_basis"]
    quick_cfg = pick_configs(rnd, small)
    hs = []
    for m in fam:
        if m["kind"] != "enc_additive":
            continue
        R = "High" if m["rate"] == "high" else "Low"
        enc = [e.replace("{R}", R) for e in RATE_ENC]
        # (3,3)-class configurations need > 15 min of SAT time for the 3-run additivity query: thorough tier only
        # SAT time of the 3-run additivity query is erratic (high (1,3) and low (3,3) exceed 30 min while
        # (7,1) takes 2 min): the quick tier uses a measured allow-list, seed-chosen within it
        fast = {("low", 1, 3), ("low", 1, 6), ("low", 1, 7), ("low", 2, 5), ("high", 3, 2), ("high", 5, 2), ("high", 6, 1), ("high", 7, 1)}
        q = (m["rate"], m["k"], m["r"]) in fast and ((m["rate"], m["k"], m["r"]) in quick_cfg or (m["k"] + m["r"]) % 2 == ctx.seed % 2)
        hs.append(Harness(f"gen::c02g::{m['name']}", "C13",
                          f"real {R}RateEncoder<SpecEngine> ({m['k']},{m['r']}): enc(a) ^ enc(b) == enc(a^b) for fully symbolic a, b",
                          encodes=enc, bounds=f"2-byte shards, config ({m['k']},{m['r']}), unwind 66", timeout=3600, mem_gb=8,
                          symbolic="two full data sets (2*k 16-bit symbols)", tiers=("quick", "thorough") if q else ("thorough",)))
    # the real NoSimd engine's own additivity (shared with C15): a data-dependent shortcut in a butterfly shows here
    from . import c15 as c15mod
    cfam = families.c15_family()
    q15 = c15mod.select(rnd, cfam)
    for m in cfam:
        if m["kind"] == "additive":
            hs.append(c15mod.mk(m, "C13", q15))
    return Plan(hs,
                assumptions=["SpecEngine contract (linear by construction; garbage outputs are fresh nondeterministic values, so any reliance on them breaks additivity)",
                             "homogeneity (scaling by a field constant) follows from C02's basis form: recovery = G*x with constant G"],
                outside=["work size > 8", "additivity for high-rate (k<=4, r in {3,4}) and low-rate (3,4): the 3-run SAT query exceeds 1 h (their basis form is decided in C02)"],
                trusted_base=COMMON_TRUSTED)
